#!/bin/sh
# Offline toolchain probe + trial build of catii from /repo's working tree (deleted again).
set -e
cd "$(dirname "$0")"
PY=${VERIF_PYTHON:-/venv/bin/python}
export PYTHONDONTWRITEBYTECODE=1 VERIF_NO_KCACHE=1
"$PY" - <<'PYEOF'
import os, resource, sys
assert sys.version_info >= (3, 12), "sys.monitoring needs CPython >= 3.12"
import numpy, Cython
os.close(os.memfd_create("probe"))
resource.getrlimit(resource.RLIMIT_FSIZE)
import sys as _s
assert hasattr(_s, "monitoring")
from sim import build
catii = build.import_catii()
from catii import set_operations, indxio, iindexes, ccubes, xcubes
print("setup ok: python %s numpy %s cython %s catii from %s" % (sys.version.split()[0], numpy.__version__, Cython.__version__, os.path.dirname(catii.__file__)))
PYEOF
