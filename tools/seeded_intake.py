#!/usr/bin/env python3
"""tools/seeded_intake.py <PROP> <k> [--name NAME] [--skip-tests]

Takes the deliverables of a bug-seeding sub-agent (/tmp/wt-<PROP>/_out/m<k>.diff, m<k>_demo.py, m<k>.txt),
CONFIRMS them independently in a fresh scratch worktree of /repo (outside /repo and /verif):
  1. the diff applies to HEAD and the library imports,
  2. the 605 stable baseline tests still pass with the change (tools/compare_tests.py),
  3. the demonstration FAILS with the change and PASSES without it,
then runs the intended property's quick check against a scratch copy with the change applied, and stores
everything under /verif/seeded/<PROP>-<NAME>/ (patch.diff, demo.py, meta.json).  The scratch worktree is
removed afterwards.  Nothing is ever applied to /repo itself.
"""
import argparse
import json
import os
import re
import shutil
import subprocess
import sys
import time

HERE = os.path.dirname(os.path.dirname(os.path.abspath(__file__)))


def sh(cmd, **kw):
    return subprocess.run(cmd, stdout=subprocess.PIPE, stderr=subprocess.STDOUT, **kw)


def main():
    ap = argparse.ArgumentParser()
    ap.add_argument("prop")
    ap.add_argument("k")
    ap.add_argument("--name", default=None)
    ap.add_argument("--src", default=None, help="directory holding m<k>.diff etc. (default /tmp/wt-<PROP>/_out)")
    ap.add_argument("--skip-tests", action="store_true")
    ap.add_argument("--check-args", default="--tier quick")
    args = ap.parse_args()
    src = args.src or "/tmp/wt-%s/_out" % args.prop
    diff = os.path.join(src, "m%s.diff" % args.k)
    demo = os.path.join(src, "m%s_demo.py" % args.k)
    txt = os.path.join(src, "m%s.txt" % args.k)
    name = args.name or "m%s" % args.k
    out = os.path.join(HERE, "seeded", "%s-%s" % (args.prop, name))
    os.makedirs(out, exist_ok=True)
    wt = "/tmp/confirm-%s-%s-%d" % (args.prop, name, os.getpid())
    meta = {"property": args.prop, "name": name, "source": "independent sub-agent given only the property text",
            "description": open(txt).read() if os.path.exists(txt) else "", "confirmed": {}}
    try:
        r = sh(["git", "-C", "/repo", "worktree", "add", "-q", "--detach", wt, "HEAD"])
        assert r.returncode == 0, r.stdout
        meta["repo_head"] = sh(["git", "-C", "/repo", "rev-parse", "--short", "HEAD"]).stdout.decode().strip()
        for so in os.listdir("/repo/src/catii"):
            if so.endswith(".so"):
                shutil.copy(os.path.join("/repo/src/catii", so), os.path.join(wt, "src", "catii", so))
        env = dict(os.environ, PYTHONPATH=os.path.join(wt, "src"), PYTHONDONTWRITEBYTECODE="1")
        # demo on the clean tree
        d0 = sh(["timeout", "600", "/venv/bin/python", demo], cwd=wt, env=env)
        meta["confirmed"]["demo_passes_without_change"] = d0.returncode == 0
        r = sh(["git", "-C", wt, "apply", diff])
        meta["confirmed"]["patch_applies"] = r.returncode == 0
        if r.returncode != 0:
            meta["confirmed"]["apply_output"] = r.stdout.decode()[-500:]
        touched = sh(["git", "-C", wt, "diff", "--name-only"]).stdout.decode().split()
        meta["files_touched"] = touched
        if any(t.endswith(".pyx") for t in touched):
            b = sh(["/venv/bin/python", "setup.py", "build_ext", "--inplace"], cwd=wt, env=dict(env, CYTHONIZE_SETUP_PY="1"))
            meta["confirmed"]["kernel_rebuilt"] = b.returncode == 0
        d1 = sh(["timeout", "600", "/venv/bin/python", demo], cwd=wt, env=env)
        meta["confirmed"]["demo_fails_with_change"] = d1.returncode != 0
        meta["confirmed"]["demo_output_with_change"] = d1.stdout.decode(errors="replace")[-600:]
        if not args.skip_tests:
            t = sh([os.path.join(HERE, "tools", "compare_tests.py"), wt])
            meta["confirmed"]["stable_tests_pass_with_change"] = t.returncode == 0
            meta["confirmed"]["tests_output"] = t.stdout.decode(errors="replace")[-300:]
        shutil.copy(diff, os.path.join(out, "patch.diff"))
        shutil.copy(demo, os.path.join(out, "demo.py"))
    finally:
        sh(["git", "-C", "/repo", "worktree", "remove", "--force", wt])
        shutil.rmtree(wt, ignore_errors=True)
    # my check against the change
    t0 = time.time()
    c = sh([os.path.join(HERE, "tools", "mutant_run.sh"), os.path.join(out, "patch.diff"), args.prop] + args.check_args.split())
    text = c.stdout.decode(errors="replace")
    viol = [l for l in text.splitlines() if l.startswith("VIOLATION")]
    meta["check"] = {
        "command": "tools/mutant_run.sh seeded/%s-%s/patch.diff %s %s" % (args.prop, name, args.prop, args.check_args),
        "exit": c.returncode,
        "verdict": "caught" if (c.returncode == 1 and viol) else ("missed" if c.returncode == 0 else "error"),
        "violation_lines": [re.sub(r"replay=\S+", "replay=<...>", v) for v in viol[:4]],
        "messages": [l for l in text.splitlines() if l.startswith("violation:")][:3],
        "seconds": round(time.time() - t0, 1),
    }
    if meta["check"]["verdict"] == "error":
        meta["check"]["tail"] = text[-800:]
    with open(os.path.join(out, "meta.json"), "w") as fh:
        json.dump(meta, fh, indent=1)
        fh.write("\n")
    ok = all(v for k, v in meta["confirmed"].items() if isinstance(v, bool))
    print("%s-%s confirmed=%s check=%s %s" % (args.prop, name, ok, meta["check"]["verdict"],
                                               (meta["check"]["violation_lines"] or [""])[0][:140]))
    return 0


if __name__ == "__main__":
    sys.exit(main())
