#!/usr/bin/env python3
"""Usage: compare_tests.py <worktree>
Runs the repository's test suite inside <worktree> (PYTHONPATH=<worktree>/src) and reports whether every
test of the stable baseline (605 tests known to pass on the unmodified tree) still passes.
About 200 other tests always fail on this platform (NumPy 2 TypeErrors); they are ignored."""
import json, os, subprocess, sys, tempfile, xml.etree.ElementTree as ET
wt = os.path.abspath(sys.argv[1])
stable = set(json.load(open('/root/.vp/BASELINE.json'))['stable_pass'])
xml = tempfile.mktemp(suffix='.xml', dir='/tmp')
env = dict(os.environ, PYTHONPATH=os.path.join(wt, 'src'), PYTHONDONTWRITEBYTECODE='1')
p = subprocess.run(['/venv/bin/python', '-m', 'pytest', '-q', '-p', 'no:cacheprovider', '--timeout=900',
                    '--continue-on-collection-errors', '--junitxml=' + xml], cwd=wt, env=env,
                   stdout=subprocess.PIPE, stderr=subprocess.STDOUT)
passed = set()
for tc in ET.parse(xml).iter('testcase'):
    if not any(ch.tag in ('failure', 'error', 'skipped') for ch in tc):
        passed.add(tc.get('classname') + '::' + tc.get('name'))
os.unlink(xml)
missing = sorted(stable - passed)
print('stable baseline tests: %d, still passing: %d' % (len(stable), len(stable) - len(missing)))
for m in missing[:40]:
    print('NOW FAILING:', m)
print('RESULT:', 'OK - all stable baseline tests pass' if not missing else 'BROKEN - %d stable tests fail' % len(missing))
sys.exit(1 if missing else 0)
