#!/usr/bin/env python3
"""Regenerates /verif/mutants/*.patch from (file, old text, new text) triples against /repo's CURRENT tree.

These are my own sensitivity mutants (realistic edits that keep the 605-test baseline green); the
independently written ones from sub-agents live under /verif/seeded/.  Each patch is applied to a
scratch copy only (tools/mutant_run.sh / tools/sensitivity.py), never to /repo.
"""
import os
import shutil
import subprocess
import sys
import tempfile

HERE = os.path.dirname(os.path.dirname(os.path.abspath(__file__)))
OUT = os.path.join(HERE, "mutants")

M = []


def mutant(name, props, path, old, new, why):
    M.append((name, props, path, old, new, why))


# ---------------------------------------------------------------- C06 / C07 / C15 (iindexes.py)
II = "src/catii/iindexes.py"
mutant("append_common_rows_unshifted", "C06", II,
       "                shifted_rowids = other.common_rowids().astype(dtype) + shift\n",
       "                shifted_rowids = other.common_rowids().astype(dtype)\n",
       "append: rows of other's common value are added without the row shift (1-D branch only)")
mutant("update_mask_ignores_column", "C06", II,
       "            matches = other_cell_mask[(rowids,) + coords[1:]]\n",
       "            matches = other_cell_mask[(rowids,) + coords[1:]] if len(coords) < 2 else other_cell_mask[rowids].any(axis=tuple(range(1, other_cell_mask.ndim)))\n",
       "update: overwrite mask forgets the column, so a cell update clears the same row in other columns")
mutant("filtered_all_true_returns_self", "C06", II,
       "        new_rowids = numpy.empty(len(mask), dtype=self.rowid_dtype)\n",
       "        if new_length == len(mask):\n            return self\n        new_rowids = numpy.empty(len(mask), dtype=self.rowid_dtype)\n",
       "filtered: an all-True mask returns the receiver itself (aliasing shows only after a later mutation)")
mutant("column_stack_offset_by_one_for_2d", "C06", II,
       "            i += ii.shape[1]\n",
       "            i += max(1, ii.shape[1] - 1) if ii.shape[1] > 2 else ii.shape[1]\n",
       "column_stack: column offset wrong after a 2-D input with more than two columns")
mutant("collapsed_precedence_forward", "C06", II,
       "        for coord in reversed(precedence[:-1]):\n",
       "        for coord in precedence[:-1]:\n",
       "collapsed: precedence applied in forward order (differs only when a row holds two listed values)")
mutant("update_keeps_emptied_entries", "C07", II,
       "                if numpy.all(matches):\n                    to_delete.append(coords)\n                else:\n",
       "                if False:\n                    to_delete.append(coords)\n                else:\n",
       "update: an entry whose rows are all overwritten is kept with zero rows")
mutant("filtered_keeps_empty_selection", "C07", II,
       "            if numpy.any(m):\n",
       "            if True:\n",
       "filtered: entries with no surviving row are kept empty")
mutant("shift_common_keeps_first_max", "C15", II,
       "            dsu = max([(v, k) for k, v in counts.items()])\n            new_common = dsu[1]\n\n        if new_common != self.common:",
       "            dsu = max([(v, k) for k, v in counts.items() if k != self.common] or [(0, self.common)])\n            new_common = dsu[1] if dsu[0] > counts[self.common] * 2 else self.common\n\n        if new_common != self.common:",
       "shift_common(): hysteresis - only moves when another value is more than twice as frequent")
mutant("eq_ignores_common", "C15", II,
       "                and self.common == other.common\n",
       "                and (self.common == other.common or len(self) == 0)\n",
       "__eq__: two entry-less indexes compare equal whatever their common value")
mutant("append_no_normalise_when_other_small", "C15", II,
       "        self.shape = (new_numrows,) + self.shape[1:]\n        self.shift_common()\n",
       "        self.shape = (new_numrows,) + self.shape[1:]\n        if other.shape[0] * 2 > old_numrows:\n            self.shift_common()\n",
       "append: skips re-normalisation when the appended part is small")

# ---------------------------------------------------------------- C10 / C11 / C12 (indxio.py)
IO = "src/catii/indxio.py"
mutant("index_word_from_coords_only", "C10", IO,
       "            max(numpy.max(index), common) if len(index) != 0 else common\n",
       "            numpy.max(index) if len(index) != 0 else common\n",
       "save: index word fitted from the coordinates only; a wider common value is truncated")
mutant("load_common_with_rowid_word", "C10", IO,
       "        common = struct.unpack_from(ind_format_string, buf, offset=offset)[0]\n",
       "        common = struct.unpack_from(ind_format_string if index_word_size < 8 else \"<L\", buf, offset=offset)[0]\n",
       "load: an 8-byte common value is read as 4 bytes")
mutant("symmetric_header_swap", "C11", IO,
       "        f.write(struct.pack(\"<L\", len(index)))\n\n        # Write index word size\n        f.write(struct.pack(\"<B\", index_word_size))\n",
       "        f.write(struct.pack(\"<B\", index_word_size))\n\n        # Write index word size\n        f.write(struct.pack(\"<L\", len(index)))\n",
       "save half of a symmetric swap of two header fields (see the load half in the same patch)")
mutant("tolerant_loader_clamps_mapping", "C12", IO,
       "        buffer_length = offset + buffer_size\n",
       "        import os as _os\n        buffer_length = min(offset + buffer_size, _os.fstat(f.fileno()).st_size)\n",
       "load: mapping length clamped to the file size, so a torn file yields short row-id slices silently")
mutant("size_word_written_last", "C12", IO,
       "        f.write(struct.pack(\"<Q\", buffer_size))\n\n        ind_format_string",
       "        f.write(struct.pack(\"<Q\", 0))\n\n        ind_format_string",
       "save: placeholder size word first (patched at the end by the second site of this patch)")

# ---------------------------------------------------------------- C16 / C17 / C20
CC = "src/catii/ccubes.py"
XC = "src/catii/xcubes.py"
FF = "src/catii/ffuncs.py"
XF = "src/catii/xfuncs.py"
mutant("ffunc_regions_on_self", "C16", FF,
       "        tracing = self.tracing\n        if self.ignore_missing:\n            sums, valid_counts = regions\n        else:\n            sums, valid_counts, missing_counts = regions\n\n        def _fill(x_coords, x_rowids):\n            if tracing:\n                start = time.perf_counter()\n\n            # This can be called millions of times, so it's critical\n            # to perform as few passes over the data as possible.\n            # We set summables[~validity] = 0 so there's no need to filter\n            # them out again here.\n            sums[x_coords] = numpy.sum(self.summables[x_rowids], axis=0)\n",
       "        tracing = self.tracing\n        self._regions = regions\n        if self.ignore_missing:\n            sums, valid_counts = regions\n        else:\n            sums, valid_counts, missing_counts = regions\n\n        def _fill(x_coords, x_rowids):\n            if tracing:\n                start = time.perf_counter()\n\n            # This can be called millions of times, so it's critical\n            # to perform as few passes over the data as possible.\n            # We set summables[~validity] = 0 so there's no need to filter\n            # them out again here.\n            self._regions[0][x_coords] = numpy.sum(self.summables[x_rowids], axis=0)\n",
       "ffunc_sum stashes the current task's regions on self; another task's fill_func overwrites them")
mutant("xfunc_quantile_nan_into_caller", "C17", XF,
       "        if arr.dtype is not float:\n            arr = arr.astype(float)\n",
       "        if arr.dtype is not float:\n            arr = arr.astype(float, copy=False)\n",
       "xfunc_quantile: astype(copy=False) 'saves a copy', so for float input NaN is written into the caller's array under False validity")
mutant("column_stack_shifts_input_in_place", "C17", II,
       "        if ii.common != new_common:\n            ii = ii.copy()\n            ii.shift_common(new_common)\n",
       "        if ii.common != new_common:\n            if copy:\n                ii = ii.copy()\n            ii.shift_common(new_common)\n",
       "column_stack(copy=False) re-encodes its inputs in place")
mutant("ffunc_mean_cached_corner", "C17", FF,
       "        sums[cube.corner] = numpy.nansum(self.summables, axis=0)\n        valid_counts[cube.corner] = numpy.sum(self.countables, axis=0)\n",
       "        if not hasattr(self, \"_corner\"):\n            self._corner = sums[cube.corner].shape\n        sums[cube.corner] = numpy.nansum(self.summables, axis=0)\n        valid_counts[cube.corner] = numpy.sum(self.countables, axis=0) if self._corner == sums[cube.corner].shape else 0\n",
       "ffunc_mean remembers the corner shape of the first cube it saw; re-use on a cube with another scaffold is wrong")
mutant("interrupt_checked_once_per_calculate", "C20", XC,
       "        def fill_one_cube(nested_coords):\n            if self.check_interrupt is not None:\n                self.check_interrupt()\n",
       "        if self.check_interrupt is not None:\n            self.check_interrupt()\n\n        def fill_one_cube(nested_coords):\n",
       "xcube consults the callback once per calculate instead of once per sub-cube")
mutant("fill_one_cube_finishes_other_subcubes", "C20", CC,
       "            for subcube_dims in self.product():\n                fill_one_cube(subcube_dims)\n",
       "            pending = None\n            for subcube_dims in self.product():\n                try:\n                    fill_one_cube(subcube_dims)\n                except Exception as exc:\n                    pending = pending or exc\n            if pending is not None:\n                raise pending\n",
       "serial ccube finishes the remaining sub-cubes before re-raising the interrupt")
mutant("aggregate_memoises_regions", "C20", FF,
       "        shape = cube.working_shape + self.summables.shape[1:]\n        sums = numpy.zeros(shape, dtype=dtype)\n        sums[cube.corner] = numpy.nansum(self.summables, axis=0)\n",
       "        shape = cube.working_shape + self.summables.shape[1:]\n        memo = self.__dict__.setdefault(\"_memo\", {})\n        sums = memo.get((id(cube), shape))\n        if sums is None:\n            sums = memo[(id(cube), shape)] = numpy.zeros(shape, dtype=dtype)\n        sums[cube.corner] = numpy.nansum(self.summables, axis=0)\n",
       "ffunc_sum memoises its sums region per cube: a retry after an interrupt starts from the aborted call's arrays")


mutant("fire_and_forget", "C16_C20", CC,
       "                    pool.map(fill_one_cube_in_pool, self.product())\n",
       "                    for subcube_dims in self.product():\n                        pool.apply_async(fill_one_cube_in_pool, (subcube_dims,))\n",
       "pooled ccube submits the sub-cubes with apply_async and never waits for them")


SECOND_SITES = {
    # name -> extra (path, old, new) applied in the same patch
    "symmetric_header_swap": [(IO,
        "        index_length = struct.unpack_from(\"<L\", buf, offset=offset)[0]\n        offset += 4\n\n        # Read index word size\n        index_word_size = struct.unpack_from(\"<B\", buf, offset=offset)[0]\n        ind_format_string = IndxIO.format(index_word_size)\n        offset += 1\n",
        "        index_word_size = struct.unpack_from(\"<B\", buf, offset=offset)[0]\n        ind_format_string = IndxIO.format(index_word_size)\n        offset += 1\n\n        # Read index length\n        index_length = struct.unpack_from(\"<L\", buf, offset=offset)[0]\n        offset += 4\n")],
    "size_word_written_last": [(IO,
        "        if f.tell() != 16 + buffer_size:\n            raise RuntimeError(\"Wrote illegal index format: wrong length.\")\n",
        "        if f.tell() != 16 + buffer_size:\n            raise RuntimeError(\"Wrote illegal index format: wrong length.\")\n        f.seek(8)\n        f.write(struct.pack(\"<Q\", buffer_size))\n        f.seek(16 + buffer_size)\n")],
}


def main():
    os.makedirs(OUT, exist_ok=True)
    keep = {"c16_ccube_slice_on_self.patch", "c16_xcube_shared_coord_buffer.patch", "c20_swallow_interrupt.patch",
            "c17_ffunc_sum_no_copy.patch", "c06_revert_F2.patch"}
    scratch = tempfile.mkdtemp(prefix="mkmut-", dir="/dev/shm")
    failed = 0
    try:
        shutil.copytree("/repo/src", os.path.join(scratch, "src"), ignore=shutil.ignore_patterns("*.so", "*.c", "__pycache__"))
        git = ["git", "-c", "user.email=x@y", "-c", "user.name=x"]
        subprocess.run(git + ["init", "-q", "."], cwd=scratch, check=True)
        subprocess.run(git + ["add", "-A"], cwd=scratch, check=True)
        subprocess.run(git + ["commit", "-qm", "base"], cwd=scratch, check=True)
        for name, props, path, old, new, why in M:
            sites = [(path, old, new)] + SECOND_SITES.get(name, [])
            ok = True
            for pth, o, n in sites:
                full = os.path.join(scratch, pth)
                text = open(full).read()
                if text.count(o) != 1:
                    print("ANCHOR-NOT-UNIQUE (%d) %s in %s" % (text.count(o), name, pth))
                    ok = False
                    break
                open(full, "w").write(text.replace(o, n))
            if ok:
                r = subprocess.run([sys.executable, "-m", "py_compile"] + [os.path.join(scratch, p) for p, _, _ in sites])
                ok = r.returncode == 0
            if ok:
                diff = subprocess.run(git + ["diff"], cwd=scratch, stdout=subprocess.PIPE, check=True).stdout
                fn = "%s_%s.patch" % (props.lower(), name)
                with open(os.path.join(OUT, fn), "wb") as fh:
                    fh.write(("# %s\n# intended property: %s\n" % (why.strip(), props)).encode() + diff)
                keep.add(fn)
            else:
                failed += 1
            subprocess.run(git + ["checkout", "-q", "--", "."], cwd=scratch, check=True)
    finally:
        shutil.rmtree(scratch, ignore_errors=True)
    print("wrote %d patches, %d failed" % (len(M) - failed, failed))
    return 1 if failed else 0


if __name__ == "__main__":
    sys.exit(main())
