#!/usr/bin/env python3
"""tools/sensitivity.py [pattern]  -- run every mutants/*.patch against its intended property (quick budget).

The intended property is encoded in the file name prefix (c06_..., c16_c20_...).  Prints one line per
(mutant, property): CAUGHT (exit 1 with a VIOLATION line whose replay reproduced), MISSED (exit 0) or
ERROR (anything else).  Scratch copies are created and removed by tools/mutant_run.sh.
"""
import glob
import os
import re
import subprocess
import sys
import concurrent.futures

HERE = os.path.dirname(os.path.dirname(os.path.abspath(__file__)))
RUNS = {"C06": 6000, "C07": 6000, "C15": 6000, "C10": 20000, "C11": 6000, "C12": 300, "C16": 150, "C17": 1500, "C20": 60}


def one(job):
    patch, prop = job
    env = dict(os.environ, VERIF_WORKERS="4")
    p = subprocess.run([os.path.join(HERE, "tools", "mutant_run.sh"), patch, prop, "--runs", str(RUNS[prop])],
                       stdout=subprocess.PIPE, stderr=subprocess.STDOUT, env=env)
    out = p.stdout.decode(errors="replace")
    viol = [l for l in out.splitlines() if l.startswith("VIOLATION")]
    if p.returncode == 1 and viol:
        verdict = "CAUGHT"
    elif p.returncode == 0:
        verdict = "MISSED"
    else:
        verdict = "ERROR(rc=%d)" % p.returncode
    sig = re.search(r"signature=(\S+)", viol[0]).group(1) if viol else ""
    return os.path.basename(patch), prop, verdict, sig, out[-400:] if verdict.startswith("ERROR") else ""


def main():
    pat = sys.argv[1] if len(sys.argv) > 1 else "*"
    jobs = []
    for patch in sorted(glob.glob(os.path.join(HERE, "mutants", pat + ".patch"))):
        props = re.findall(r"c(\d\d)_", os.path.basename(patch).split("_", 3)[0] + "_" + "_".join(os.path.basename(patch).split("_")[1:3]) + "_")
        names = []
        for tok in os.path.basename(patch).split("_"):
            if re.fullmatch(r"c\d\d", tok):
                names.append(tok.upper())
            else:
                break
        for prop in names:
            jobs.append((patch, prop))
    bad = 0
    with concurrent.futures.ThreadPoolExecutor(max_workers=4) as ex:
        for name, prop, verdict, sig, tail in ex.map(one, jobs):
            print("%-55s %s %-12s %s" % (name, prop, verdict, sig))
            if tail:
                print(tail)
            if verdict != "CAUGHT":
                bad += 1
    print("%d of %d (mutant, property) pairs not caught" % (bad, len(jobs)))
    return 1 if bad else 0


if __name__ == "__main__":
    sys.exit(main())
