#!/usr/bin/env python3
"""tools/determinism_sweep.py PROP N [SEED]

Runs the first N runs of PROP in fresh interpreters under several configurations (PYTHONHASHSEED,
worker count, repeated) and compares the event-log digests (every decision, every disk operation,
every model comparison).  Exit 0 iff all digests are identical.
"""
import os
import subprocess
import sys

HERE = os.path.dirname(os.path.dirname(os.path.abspath(__file__)))
prop, n = sys.argv[1], int(sys.argv[2])
seed = sys.argv[3] if len(sys.argv) > 3 else "0"
configs = [("0", "1"), ("0", "16"), ("0", "16"), ("1", "5"), ("4242", "16"), ("random", "3")]
digests = []
for hashseed, workers in configs:
    env = dict(os.environ, PYTHONHASHSEED=hashseed, VERIF_WORKERS=workers, VERIF_SEED=seed)
    env.pop("VERIF_CATII_TREE", None)
    p = subprocess.run(["/venv/bin/python", "-m", "sim.main", prop, "--digest", str(n)], cwd=HERE, env=env,
                       stdout=subprocess.PIPE, stderr=subprocess.STDOUT)
    out = p.stdout.decode()
    d = [l.split()[1] for l in out.splitlines() if l.startswith("DIGEST ")]
    digests.append(d[0] if d else "ERROR:" + out[-300:])
    print("%s n=%d seed=%s PYTHONHASHSEED=%s workers=%s -> %s" % (prop, n, seed, hashseed, workers, digests[-1]))
ok = len(set(digests)) == 1 and not digests[0].startswith("ERROR")
print("DETERMINISM %s: %s" % (prop, "identical" if ok else "DIVERGED"))
sys.exit(0 if ok else 1)
