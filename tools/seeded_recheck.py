#!/usr/bin/env python3
"""tools/seeded_recheck.py [--args "--tier quick"] (env RECHECK_GLOB="C06-* C20-*" selects, RECHECK_PAR / RECHECK_WORKERS size it): re-run the intended check against every seeded/<id>/patch.diff
(scratch copy only) and refresh meta.json's "check" block.  Prints a table; exit 1 if any is not caught."""
import concurrent.futures
import glob
import json
import os
import re
import subprocess
import sys
import time

HERE = os.path.dirname(os.path.dirname(os.path.abspath(__file__)))
args = "--tier quick"
if "--args" in sys.argv:
    args = sys.argv[sys.argv.index("--args") + 1]


def one(d):
    meta_path = os.path.join(d, "meta.json")
    meta = json.load(open(meta_path))
    prop = meta["property"]
    t0 = time.time()
    c = subprocess.run([os.path.join(HERE, "tools", "mutant_run.sh"), os.path.join(d, "patch.diff"), prop] + args.split(),
                       stdout=subprocess.PIPE, stderr=subprocess.STDOUT, env=dict(os.environ, VERIF_WORKERS=os.environ.get("RECHECK_WORKERS", "8")))
    text = c.stdout.decode(errors="replace")
    viol = [l for l in text.splitlines() if l.startswith("VIOLATION")]
    meta["check"] = {
        "command": "tools/mutant_run.sh seeded/%s/patch.diff %s %s" % (os.path.basename(d), prop, args),
        "exit": c.returncode,
        "verdict": "caught" if (c.returncode == 1 and viol) else ("missed" if c.returncode == 0 else "error"),
        "violation_lines": [re.sub(r"replay=\S+", "replay=<...>", v) for v in viol[:4]],
        "messages": [l for l in text.splitlines() if l.startswith("violation:")][:3],
        "seconds": round(time.time() - t0, 1),
    }
    if meta["check"]["verdict"] == "error":
        meta["check"]["tail"] = text[-800:]
    json.dump(meta, open(meta_path, "w"), indent=1)
    return os.path.basename(d), meta["check"]["verdict"], (meta["check"]["violation_lines"] or [""])[0]


dirs = sorted(d for pat in os.environ.get("RECHECK_GLOB", "*-*").split() for d in glob.glob(os.path.join(HERE, "seeded", pat)))
bad = 0
with concurrent.futures.ThreadPoolExecutor(max_workers=int(os.environ.get("RECHECK_PAR", "2"))) as ex:
    for name, verdict, line in ex.map(one, dirs):
        sig = re.search(r"signature=(\S+)", line)
        print("%-12s %-7s %s" % (name, verdict, sig.group(1) if sig else ""))
        bad += verdict != "caught"
print("%d of %d seeded changes not caught" % (bad, len(dirs)))
sys.exit(1 if bad else 0)
