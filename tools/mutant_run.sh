#!/bin/sh
# tools/mutant_run.sh <patch> <PROP> [check args...]
# Applies <patch> (a diff against /repo, -p1) to a scratch copy of /repo's sources outside /repo and
# /verif, runs ./check <PROP> against that copy (VERIF_REPO), prints the verdict and removes the copy.
set -u
PATCH=$(realpath "$1"); PROP=$2; shift 2
HERE=$(cd "$(dirname "$0")/.." && pwd)
SCRATCH=$(mktemp -d /dev/shm/catii-mutant-XXXXXX)
trap 'rm -rf "$SCRATCH"' EXIT
mkdir -p "$SCRATCH/src"
cp -r /repo/src/catii "$SCRATCH/src/"
rm -f "$SCRATCH"/src/catii/*.so "$SCRATCH"/src/catii/*.c
(cd "$SCRATCH" && patch -s -p1 < "$PATCH") || { echo "PATCH-FAILED $PATCH"; exit 3; }
cd "$HERE"
VERIF_REPO="$SCRATCH" VERIF_EVIDENCE_DIR="$SCRATCH/evidence" ./check "$PROP" --no-selftest "$@"
RC=$?
echo "MUTANT $(basename "$PATCH") $PROP exit=$RC"
exit $RC
