#!/usr/bin/env python3
"""Regenerates MANIFEST.json from one table (so it is always schema-valid and consistent)."""
import json
import os

HERE = os.path.dirname(os.path.abspath(__file__))

NA = {
    "C01": "pure function of the input array and options (from_array then to_array); no schedule, clock, I/O, fault or history for a simulator to decide - input generation alone would be property-based testing, not simulation",
    "C02": "pure function of the dimension list (serial evaluation); the pooled path is reduced to the serial one by C16, nothing else is schedule- or fault-dependent",
    "C03": "pure differential between two deterministic evaluators and a direct group-by; no nondeterminism or fault to inject",
    "C04": "pure function of inputs and the return_missing_as flag",
    "C05": "metamorphic relation between pure evaluations of re-encoded inputs",
    "C08": "pure function of two sorted arrays",
    "C09": "memory-safety over all inputs needs a bounds-checked/ASan build as observer; the nogil kernels only read caller arrays and write a private output, so no schedule, crash or fault decides it",
    "C13": "pure function of the dimension list (axis layout of the output)",
    "C14": "pure function (deterministic callbacks over deterministic walk)",
    "C18": "pure per-cell statistics of the array cube",
    "C19": "pure function of two integers",
}

SCHED_NOTE = "Trusts the ThreadPool stub (SimPool) as observably equivalent to multiprocessing.pool.ThreadPool.map (compared with the real class in a self-test on every run) and treats one bytecode instruction as atomic; races confined to a single GIL-releasing C loop are outside the model."

HIST_NOTE = "Trusts NumPy (concatenate, column_stack, take, boolean selection) as reference semantics and the generator's guards for keeping arguments inside each operation's documented domain; from_array's content is C01's business (the model adopts its result)."
HIST_TECH = "deterministic simulation: seeded operation-and-fault histories (incl. persist/crash/reload through a simulated disk) executed on real iindex objects and a dense NumPy reference model, judged after every step; ddmin-minimised replay files"

CHECKS = [
    ("C06", "hist", "exploration", "4 C06",
     "Sequential-conformance tier of the history engine: ten scripted boundary histories plus seeded histories of 2-24 operations over up to four live indexes (different commons, 1-D/2-D, 3-D for slicing; operands as arrays, strided views, lists, tuples, ranges; mappings as dict, defaultdict, __missing__ subclass) are executed on the real objects and on a dense NumPy model; after every step every live index must decode (own decoder and to_array(dtype=int)) to its model, non-receiver operands must be byte-identical to their snapshots and requested copies must share no storage. Sampling over histories.",
     HIST_NOTE, HIST_TECH),
    ("C07", "hist", "exploration", "4 C07",
     "Same histories as C06; after every step every live index (and every slice yielded by slices1d, every from_array result, every reload from the simulated disk) must satisfy validate(True) plus dtype, strict ordering, range, arity, coordinate-in-shape, non-emptiness, no-common-entry, and the derived abscissae/sparsity identities; two well-formed 1-D indexes over the same rows must be crossable by ccube. Sampling over histories.",
     HIST_NOTE, HIST_TECH),
    ("C15", "hist", "exploration", "4 C15",
     "Same histories as C06; after every library-chosen normalisation (shift_common(), append, filtered, collapsed, from_array without common) the chosen common must be a most frequent value of the dense content; after every step ==/!= are evaluated over all pairs of live indexes and their directly-built twins and must coincide with (shape, common, dense content) equality, never raise, and be False against non-indexes. Sampling over histories.",
     HIST_NOTE, HIST_TECH),
    ("C16", "sched", "exploration", "4 C16",
     "Pooled evaluation under a seeded scheduler: real worker threads pass a baton, a pre-emption point precedes every bytecode instruction of catii code (sys.monitoring) and every task start, and a seeded strategy (run-to-completion, uniform p, PCT, targeted pre-empt/resume, burst, lockstep, ladder of fixed offsets) decides every context switch; evaluations run on brand-new objects and on cubes that were already served or interrupted once, with and without warnings turned into errors; each workload (both cube types, 3-24 sub-cubes, 1-3 aggregates together, pool sizes 1-16) is evaluated serially once and pooled under several schedules, and every pooled output must equal the serial one in type, dtype, shape and bits. Sampling over workloads and schedules.",
     SCHED_NOTE,
     "deterministic simulation: seeded instruction-granular thread scheduler behind a ThreadPool stub; differential (pooled vs serial) bit comparison; replay = explicit context-switch list"),
    ("C17", "sched", "exploration", "4 C17",
     "Call histories over shared objects (dimension lists for four cubes: two over the same rows, one over another row count, one dimensionless; fact/weight variables as plain, strided, read-only, Fortran-ordered arrays or lists with garbage under False validity; 2-5 aggregate objects), including caller-side edits between calls (a dimension index re-encoded in place, a fact array rewritten in place): calculate of sub-lists in random order run serially, pooled under seeded schedules, or interrupted by an injected raise; shortcut methods; the same aggregate objects on another cube; new cubes; non-mutating index methods. After every call all shared arguments are byte-compared with snapshots, every result is compared bit for bit with the aggregate evaluated alone on fresh copies, and all earlier results with their own snapshots. Sampling over sessions.",
     SCHED_NOTE + " The isolated serial evaluation of one aggregate on fresh objects is the reference.",
     "deterministic simulation: seeded call-and-fault histories over shared objects (serial, scheduled-pooled and interrupted calls), snapshot and isolated re-evaluation oracles"),
    ("C20", "sched", "fault_enumeration", "4 C20",
     "The fault injector is the check_interrupt callback (a plain callable, a budget-like object with a truth value, an always-falsy, any-args, value-returning or unhashable callable object, set on the instance or supplied through a subclass): for each workload a raise at EVERY invocation index in serial mode (a subclass of one of 13 standard exception families incl. StopIteration, and a BaseException subclass), and in pooled mode singletons and seeded subsets of sub-cubes under seeded schedules and pool sizes; oracles: the raised object propagates, the callback is consulted once per sub-cube, each chunk stops at its first raise, no worker survives calculate, and a recovery calculate on the same objects (serial or pooled) equals a fresh evaluation bit for bit with inputs unchanged. Exhaustive over serial interrupt indexes per cube; sampled over cubes, pooled subsets and schedules.",
     SCHED_NOTE + " Pooled interrupts are Exception subclasses only (the real worker loop catches Exception only).",
     "deterministic simulation with fault injection: interrupt injection at every cancellation point (serial, exhaustive) and at subsets x seeded schedules (pooled), followed by recovery calls"),
    ("C10", "disk", "exploration", "4 C10",
     "Fault-free arm of the storage simulation: seeded entry sets and generated indexes are written by the real IndxIO.save through a logging file object onto a memfd, the disk is cleanly restarted and the real IndxIO.load runs on a fresh descriptor; results are compared field by field (plain ints, uint32 arrays, association, rebuilt index equality and validation). Sampling over inputs, not a proof.",
     "Trusts NumPy/CPython/the kernel's memfd; the write-log-reproduces-file guard turns a bypassed seam into a harness error.",
     "deterministic simulation: simulated disk (memfd + logged file-object seam), save -> clean restart -> load round trips from seeded inputs"),
    ("C11", "disk", "exploration", "4 C11",
     "Two-party storage simulation: library bytes are compared byte-for-byte with an independent struct-based encoder written from the format description, an independent decoder reads the library's files, and the library loads the independent encoder's files for every admissible word-size pair; size arithmetic at 2^30..2^33 row ids is exercised with length-only stand-ins on a sparse memfd. Sampling over inputs.",
     "Trusts sim/refcodec.py as a faithful reading of the IndxIO docstring; stand-in arrays replace real >=4 GiB row-id arrays.",
     "deterministic simulation: two parties (library, independent INDX codec) exchanging files over a simulated disk; differential byte comparison"),
    ("C12", "disk", "fault_enumeration", "4 C12",
     "Fault arms, all followed by a restart (fresh descriptor; read-only or opened for update, raw or buffered, and for a share of the states also an in-memory stream or a pipe) and IndxIO.load, which must raise: (1) every byte-granular crash state derived from the reconstructed write log of the real save (Python-level writes and C-level tofile blocks); (2) the real save re-run with the disk full after every byte (RLIMIT_FSIZE), buffered and unbuffered; (3) the device failing (EIO, after half of a write) at every call on the file object while the real save runs; (4) the device failing at every mutating system call made around the file object (os proxy under catii.indxio), with worker threads save may start scheduled by the simulator; (5) the complete file loaded and held, then the same inode truncated in place at every byte and re-saved-and-cut; (6) big files (to 1.2 MB, thorough 17 MB) torn at sampled cut points. Exhaustive over fault points per small file, sampled over files.",
     "Crash model is the property's own (stream cut at a byte); memfd + RLIMIT_FSIZE stand for a regular file on a full disk.",
     "deterministic simulation with fault injection: exhaustive crash-point enumeration over the recorded write log + kernel-enforced full-disk faults during the real save, then restart and load"),
]


def main():
    checks = []
    for pid, engine, level, ref, text, note, tech in CHECKS:
        checks.append({
            "property_id": pid,
            "quick_cmd": "./check %s --tier quick" % pid,
            "thorough_cmd": "./check %s --tier thorough" % pid,
            "evidence_file": "evidence/%s.json" % pid,
            "replay_cmd_template": "./check %s --replay {path}" % pid,
            "engine": engine,
            "level_claimed": {"category": level, "text": text, "design_ref": "DESIGN.md section " + ref},
            "level_note": note,
            "technique": tech,
        })
    claimed = {c[0] for c in CHECKS}
    planned = {"C06", "C07", "C15", "C16", "C17", "C20"} - claimed
    na = [{"property_id": k, "reason": v} for k, v in sorted(NA.items())]
    for p in sorted(planned):
        na.append({"property_id": p, "reason": "claimed in DESIGN.md; its check is still under construction and will be registered when it passes on the unchanged tree"})
    doc = {
        "version": 1,
        "setup_cmd": "./setup.sh",
        "hooks": {
            "guard": "CRUNCH_IO_CATII_VERIF",
            "enable": "no hooks exist in /repo: every seam the simulator needs is already present (pool_class / multiprocessing.pool.ThreadPool looked up at call time, BIG_REGIONS, cube.parallel, check_interrupt, the file object handed to IndxIO). Checks copy /repo/src/catii from the working tree into a scratch dir, rebuild the Cython kernel there and export CRUNCH_IO_CATII_VERIF=1 for uniformity.",
            "baseline_off_cmd": "cd /repo && /venv/bin/python -m pytest -ra -q -p no:cacheprovider --timeout=900 --continue-on-collection-errors",
            "source_commits": [],
            "add_only": True,
        },
        "engines": [
            {"name": "disk", "path": "sim/disk.py sim/osproxy.py sim/refcodec.py sim/props/storage.py", "serves_properties": ["C10", "C11", "C12"],
             "kind_free_text": "simulated disk: memfd or tmpfs file behind a logging file-object seam and a system-call seam, write-log crash states, live I/O errors per call, RLIMIT_FSIZE full-disk faults, in-place tears, restart = fresh descriptor of several kinds, independent INDX codec as second party"},
            {"name": "hist", "path": "sim/model.py sim/gen.py sim/props/hist.py", "serves_properties": ["C06", "C07", "C15"],
             "kind_free_text": "seeded operation histories over live iindex slots against a dense NumPy reference model, with persist/crash/reload through the simulated disk as fault operations"},
            {"name": "sched", "path": "sim/sched.py sim/props/pooled.py sim/props/interrupt.py sim/props/purity.py", "serves_properties": ["C16", "C17", "C20"],
             "kind_free_text": "seeded instruction-granular thread scheduler (sys.monitoring, baton-passing real threads, seven strategies) behind a ThreadPool stub that follows multiprocessing.pool (chunking, list(map) per chunk, lazy imap, deferred async); interrupt injection through check_interrupt"},
        ],
        "checks": checks,
        "not_applicable": na,
        "notes": "Technique family: deterministic simulation with fault injection. See DESIGN.md. Exit codes of ./check: 0 held, 1 VIOLATION, 2 harness error. known_findings.json lists genuine defects (all currently repaired by fix: commits in /repo).",
    }
    with open(os.path.join(HERE, "MANIFEST.json"), "w") as fh:
        json.dump(doc, fh, indent=1)
        fh.write("\n")


if __name__ == "__main__":
    main()
