"""Cube workloads shared by the scheduler-based properties (C16, C17, C20).

A workload is a JSON-able description of one cube (either type), its dimensions, and a list of
aggregate specifications.  ``build_*`` turn it into *fresh* objects every time they are called,
so a reference evaluation and an evaluation under test never share anything.
"""
import warnings

import numpy

from . import model

CC_AGGS = ("count", "valid_count", "sum", "mean")
XC_AGGS = CC_AGGS + ("stddev", "quantile", "min", "max", "covariance", "corrcoef")
NAN = float("nan")


# ----------------------------------------------------------------------------- generation


def _enc(values):
    return [None if (isinstance(v, float) and v != v) else v for v in values]


def gen_fact(rng, n, cols=None, allow_int=True, garbage=True):
    """A fact/weight variable: NaN-marked array or (values, validity) pair."""
    form = rng.choice(("nan", "tuple"))
    dtype = "int" if (form == "tuple" and allow_int and rng.random() < 0.35) else "float"
    shape = [n] if cols is None else [n, cols]
    size = n * (cols or 1)
    miss_p = rng.choice((0.0, 0.1, 0.3, 0.6))
    validity = [rng.random() >= miss_p for _ in range(size)]
    if dtype == "int":
        vals = [rng.randint(-5, 9) for _ in range(size)]
    else:
        vals = [rng.choice((0.0, 1.0, 2.5, -1.5, 3.0, 0.25, 7.0, rng.uniform(-4, 4))) for _ in range(size)]
        if size and rng.random() < 0.06:
            vals[rng.randrange(size)] = rng.choice((float("inf"), float("-inf")))
    layout = rng.choice(("plain", "plain", "strided", "readonly", "fortran", "list"))
    if form == "nan":
        vals = [v if ok else NAN for v, ok in zip(vals, validity)]
        return {"form": "nan", "dtype": "float", "shape": shape, "values": _enc(vals), "validity": None, "layout": layout}
    if garbage:
        # values hidden under a False validity are arbitrary, including NaN
        vals = [v if ok else (rng.choice((NAN, 1e9, -7.0)) if dtype == "float" else rng.choice((10 ** 6, -99)))
                for v, ok in zip(vals, validity)]
    return {"form": "tuple", "dtype": dtype, "shape": shape, "values": _enc(vals), "validity": validity, "layout": layout}


def gen_weights(rng, n, array_only=False):
    r = rng.random()
    if not array_only and r < 0.3:
        return None
    if not array_only and r < 0.45:
        return {"form": "scalar", "value": rng.choice((1.0, 2.0, 0.5, 0.0, 3))}
    w = gen_fact(rng, n, None, allow_int=False, garbage=False)
    w["values"] = [None if v is None else abs(v) for v in w["values"]]
    if w["values"] and rng.random() < 0.08:
        # a stray negative weight (callers do have them; each aggregate has its own way of treating it)
        k = rng.randrange(len(w["values"]))
        if w["values"][k] is not None:
            w["values"][k] = -abs(w["values"][k]) - 0.5
    return w


def gen_rma(rng):
    r = rng.random()
    if r < 0.5:
        return "nan"
    if r < 0.85:
        return {"tuple": [rng.choice((0, -1, 99, 0.5)), False]}
    return {"plain": 0}


def gen_agg(rng, cube_kind, n):
    names = CC_AGGS if cube_kind == "ccube" else XC_AGGS
    f = rng.choice(names)
    spec = {"f": f, "ignore_missing": rng.random() < 0.5, "rma": gen_rma(rng)}
    if f == "count":
        spec["weights"] = gen_weights(rng, n)
        return spec
    if f in ("covariance", "corrcoef"):
        spec["arr"] = gen_fact(rng, n, rng.choice((2, 3)))
        spec["weights"] = gen_weights(rng, n, array_only=True) if rng.random() < 0.5 else None
        return spec
    if f in ("min", "max"):
        spec["arr"] = gen_fact(rng, n, None)
        return spec
    cols = None if rng.random() < 0.65 else rng.choice((1, 2, 3))
    if f == "quantile":
        cols = None if rng.random() < 0.8 else 2
        spec["prob"] = rng.choice((0.0, 0.25, 0.5, 0.75, 1.0, rng.random()))
    spec["arr"] = gen_fact(rng, n, cols)
    w = gen_weights(rng, n)
    if f == "stddev" and w is not None and w.get("form") == "scalar":
        w = None
    spec["weights"] = w
    return spec


def gen_dims(rng, n, scaffold_lo, scaffold_hi):
    """1-3 dimensions whose extra axes multiply to a scaffold size in [lo, hi]."""
    for _ in range(200):
        ndims = rng.choice((1, 1, 2, 2, 3))
        shapes = []
        for _d in range(ndims):
            r = rng.random()
            if r < 0.4:
                shapes.append(())
            elif r < 0.8:
                shapes.append((rng.randint(1, 4),))
            else:
                shapes.append((rng.randint(1, 3), rng.randint(1, 3)))
        size = 1
        for s in shapes:
            for e in s:
                size *= e
        if scaffold_lo <= size <= scaffold_hi:
            break
    else:
        shapes = [(max(scaffold_lo, 1),)]
    dims = []
    ishape = []
    for s in shapes:
        extent = rng.randint(1, 4)
        shape = [n] + list(s)
        count = n
        for e in s:
            count *= e
        skew = rng.random()
        weights = [skew ** i + 0.05 for i in range(extent)]
        vals = rng.choices(range(extent), weights=weights, k=count) if count else []
        present = sorted(set(vals))
        r = rng.random()
        if present and r < 0.5:
            common = max(present, key=lambda v: (vals.count(v), -v))
        else:
            common = rng.randrange(extent)
        dims.append({"shape": shape, "values": vals, "common": common})
        ishape.append(extent if rng.random() < 0.8 else extent + rng.choice((1, 2)))
    return dims, ishape


def gen_workload(rng, scaffold_lo=3, scaffold_hi=24, max_rows=24, max_aggs=3, kinds=("ccube", "xcube")):
    kind = rng.choice(kinds)
    n = rng.choice((1, 2, 3, 5, 8, 12, rng.randint(0, max_rows)))
    dims, ishape = gen_dims(rng, n, scaffold_lo, scaffold_hi)
    aggs = [gen_agg(rng, kind, n) for _ in range(rng.randint(1, max_aggs))]
    strict = rng.random() < 0.12
    if strict and rng.random() < 0.6:
        # a caller that turns warnings into errors is most interesting with values NumPy warns about
        for a in aggs:
            arr = a.get("arr")
            if arr and arr["dtype"] == "float" and arr["values"]:
                arr["values"][rng.randrange(len(arr["values"]))] = rng.choice((float("inf"), float("-inf")))
    return {
        "cube": kind, "N": n, "dims": dims, "ishape": ishape, "aggs": aggs,
        "engage": rng.choice(("flag", "threshold")),
        "xdtype": rng.choice(("int64", "int32", "uint8", "int16")),
        "warnings": "error" if strict else "ignore",
    }


def scaffold_size(w):
    size = 1
    for d in w["dims"]:
        for e in d["shape"][1:]:
            size *= e
    return size


# ----------------------------------------------------------------------------- building


def _dec(values, dtype):
    if dtype == "int":
        return numpy.array([0 if v is None else v for v in values], dtype=numpy.int64)
    return numpy.array([NAN if v is None else v for v in values], dtype=numpy.float64)


def build_var(spec):
    """Return the argument object for an arr/weights spec (fresh arrays each call)."""
    if spec is None:
        return None
    if spec["form"] == "scalar":
        return spec["value"]
    arr = _layout(_dec(spec["values"], spec["dtype"]).reshape(spec["shape"]), spec.get("layout"))
    if spec["form"] == "nan":
        return arr
    validity = _layout(numpy.array(spec["validity"], dtype=bool).reshape(spec["shape"]), spec.get("layout"))
    return (arr, validity)


def _layout(a, layout):
    """How the caller happened to create the array: strided view, read-only, Fortran order."""
    if layout == "strided":
        big = numpy.zeros((a.shape[0] * 2,) + a.shape[1:], dtype=a.dtype)
        big[::2] = a
        if a.dtype.kind == "f":
            big[1::2] = 12345.0
        return big[::2]
    if layout == "readonly":
        a = a.copy()
        a.setflags(write=False)
        return a
    if layout == "fortran" and a.ndim == 2:
        return numpy.asfortranarray(a)
    if layout == "list":
        return a.tolist()  # plain (nested) Python lists are accepted wherever an array is
    return a


def build_rma(r):
    if r == "nan":
        return NAN
    if "tuple" in r:
        return (r["tuple"][0], r["tuple"][1])
    return r["plain"]


def build_dims(w):
    import catii

    out = []
    for d in w["dims"]:
        a = numpy.array(d["values"], dtype=numpy.int64).reshape(d["shape"])
        if w["cube"] == "ccube":
            out.append(catii.iindex(model.entries_of(a, d["common"]), d["common"], tuple(d["shape"])))
        else:
            out.append(a.astype(w.get("xdtype", "int64")))
    return out


def build_cube(w, dims=None):
    import catii

    dims = build_dims(w) if dims is None else dims
    cls = catii.ccube if w["cube"] == "ccube" else catii.xcube
    return cls(dims, interacting_shape=tuple(int(e) for e in w["ishape"]))


def build_agg(w, spec, args=None):
    """Fresh aggregate object; `args` lets the caller supply shared (arr, weights) objects."""
    if w["cube"] == "ccube":
        from catii import ffuncs as F

        prefix = "ffunc_"
    else:
        from catii import xfuncs as F

        prefix = "xfunc_"
    cls = getattr(F, prefix + spec["f"])
    rma = build_rma(spec["rma"])
    if args is None:
        arr = build_var(spec.get("arr"))
        weights = build_var(spec.get("weights"))
    else:
        arr, weights = args
    f = spec["f"]
    with warnings.catch_warnings():
        warnings.simplefilter("ignore")
        if f == "count":
            return cls(weights, None, spec["ignore_missing"], rma)
        if f in ("min", "max"):
            return cls(arr, spec["ignore_missing"], rma)
        if f == "quantile":
            return cls(arr, spec["prob"], weights, spec["ignore_missing"], rma)
        return cls(arr, weights, spec["ignore_missing"], rma)


def build_aggs(w):
    return [build_agg(w, s) for s in w["aggs"]]


WARNINGS_MODE = ["ignore"]  # "error": the caller runs with warnings turned into exceptions (-W error)


def evaluate(cube, aggs):
    with warnings.catch_warnings():
        warnings.simplefilter(WARNINGS_MODE[0])
        if WARNINGS_MODE[0] == "error":
            return cube.calculate(aggs)
        with numpy.errstate(all="ignore"):
            return cube.calculate(aggs)


# ----------------------------------------------------------------------------- comparison


def freeze(out):
    """Bit-exact, hashable picture of a calculate() output element."""
    if isinstance(out, tuple):
        return ("tuple",) + tuple(freeze(x) for x in out)
    if isinstance(out, list):
        return ("list",) + tuple(freeze(x) for x in out)
    if isinstance(out, numpy.ndarray):
        return ("nd", out.dtype.str, out.shape, numpy.ascontiguousarray(out).tobytes())
    if isinstance(out, numpy.generic):
        return ("np", out.dtype.str, out.tobytes())
    return ("py", type(out).__name__, repr(out))


def describe(out):
    if isinstance(out, (tuple, list)):
        return [describe(x) for x in out]
    if isinstance(out, numpy.ndarray):
        return {"dtype": str(out.dtype), "shape": list(out.shape), "values": _enc(out.ravel().tolist()[:40])}
    return repr(out)


def first_difference(ref, got):
    """Human-readable first difference between two frozen-comparable outputs."""
    if type(ref) is not type(got):
        return "type %s vs %s" % (type(ref).__name__, type(got).__name__)
    if isinstance(ref, (tuple, list)):
        if len(ref) != len(got):
            return "length %d vs %d" % (len(ref), len(got))
        for i, (a, b) in enumerate(zip(ref, got)):
            d = first_difference(a, b)
            if d:
                return "[%d] %s" % (i, d)
        return None
    if isinstance(ref, numpy.ndarray):
        if ref.dtype != got.dtype or ref.shape != got.shape:
            return "dtype/shape %s%s vs %s%s" % (ref.dtype, ref.shape, got.dtype, got.shape)
        if ref.tobytes() != got.tobytes():
            ra, ga = ref.ravel(), got.ravel()
            for i in range(ra.size):
                if ra[i : i + 1].tobytes() != ga[i : i + 1].tobytes():
                    return "element %d (of shape %s): %r vs %r" % (i, ref.shape, ra[i], ga[i])
        return None
    if freeze(ref) != freeze(got):
        return "%r vs %r" % (ref, got)
    return None
