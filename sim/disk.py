"""Simulated disk for the INDX persistence seam.

``IndxIO.save`` writes through the file object it is handed (Python-level ``write`` and the
C-level ``ndarray.tofile``), ``IndxIO.load`` reads a header and then ``mmap``s the descriptor.
Both need a real descriptor, so the "disk" is an anonymous ``memfd`` (no path, nothing on a
file system) and the seam is the file object:

* ``SimFile`` wraps the writer's file object and logs every operation.  ``tofile`` appears at
  the seam as ``flush(), fileno(), tell()=p0, [C fwrite on a dup'ed descriptor], fileno(),
  seek(p1, 0)``; at that ``seek`` the block ``[p0, p1)`` is read back from the descriptor, so the
  ordered write log ``[(offset, bytes, kind)...]`` of the real ``save`` is complete.
* crash states are derived from the log (all earlier operations applied, the last one torn at
  byte granularity); full-disk faults are injected into the kernel with ``RLIMIT_FSIZE`` while
  the real ``save`` runs;
* a restart is a *fresh* open file description at offset 0 (``/proc/self/fd/N``): nothing of
  the writer's in-memory state survives.
"""
import io
import os
import resource

WRITER_MODES = ("raw", "bufw", "bufrw", "append", "bufappend")
READER_MODES = ("raw", "bufr", "rw", "bufrw")


class SeamBypassed(Exception):
    """The reconstructed write log does not reproduce the file: harness error, never a pass."""


class SimFile:
    """Logging proxy around a real file object on the simulated disk."""

    def __init__(self, disk, fobj, append=False, fail_at=None):
        self._disk = disk
        self._f = fobj
        self.ops = []  # (kind, offset, bytes)
        self.calls = []  # names only, for the event log
        self._pending_tell = None
        self.append = append
        self.fail_at = fail_at  # index of the seam call at which the device fails (EIO), or None
        self.failed = False

    def _fault(self, data=None):
        """Live fault injection: the fail_at-th call on this file object hits an I/O error.  A write first
        gets half of its bytes out (torn write), then fails."""
        if self.fail_at is not None and len(self.calls) == self.fail_at and not self.failed:
            self.failed = True
            if data is not None and len(data) > 1:
                self._f.write(data[: len(data) // 2])
                try:
                    self._f.flush()
                except Exception:
                    pass
            import errno

            raise OSError(errno.EIO, "simulated I/O error at seam call %d" % self.fail_at)

    # -- the operations save() performs ------------------------------------------------
    def write(self, data):
        self._fault(bytes(data))
        pos = self._f.tell()
        n = self._f.write(data)
        self.calls.append("write")
        self.ops.append(("py", pos, bytes(data[: n if n is not None else len(data)])))
        self._pending_tell = None
        return n

    def flush(self):
        self._fault()
        self.calls.append("flush")
        return self._f.flush()

    def fileno(self):
        self._fault()
        self.calls.append("fileno")
        return self._f.fileno()

    def tell(self):
        self._fault()
        pos = self._f.tell()
        self.calls.append("tell")
        self._pending_tell = pos
        return pos

    def seek(self, offset, whence=0):
        self._fault()
        self.calls.append("seek")
        p0 = self._pending_tell
        r = self._f.seek(offset, whence)
        if p0 is not None and whence == 0 and offset > p0:
            # the C-level block written by ndarray.tofile between tell() and seek()
            blob = os.pread(self._disk.fd, offset - p0, p0)
            self.ops.append(("c", p0, blob))
        elif whence != 0 or (p0 is None) or offset < (p0 or 0):
            self.ops.append(("seek", offset, b""))
        self._pending_tell = None
        return r

    def truncate(self, size=None):
        self.calls.append("truncate")
        self.ops.append(("truncate", self._f.tell() if size is None else size, b""))
        return self._f.truncate(size)

    def read(self, *a):
        self.calls.append("read")
        return self._f.read(*a)

    def close(self):
        self.calls.append("close")
        return self._f.close()

    def __getattr__(self, name):  # anything else save() may grow to use: logged, delegated
        attr = getattr(self._f, name)
        if callable(attr):
            def logged(*a, **kw):
                self.calls.append(name)
                self.ops.append(("other:" + name, -1, b""))
                return attr(*a, **kw)

            return logged
        return attr


class SimDisk:
    """One file on the simulated disk."""

    def __init__(self, content=None, backing="memfd"):
        """backing="memfd": anonymous file; "path": a regular named file on tmpfs (unlinked on close), for code
        that looks at f.name / stats the path."""
        self.path = None
        if backing == "path":
            d = os.path.join("/dev/shm" if os.path.isdir("/dev/shm") else (os.environ.get("TMPDIR") or "/tmp"),
                             "catii-simdisk-%d" % os.getpid())
            os.makedirs(d, exist_ok=True)
            SimDisk._serial += 1
            self.path = os.path.join(d, "f%d.indx" % SimDisk._serial)
            self.fd = os.open(self.path, os.O_RDWR | os.O_CREAT | os.O_TRUNC, 0o600)
        else:
            self.fd = os.memfd_create("catii-simdisk")
        if content:
            os.pwrite(self.fd, content, 0)

    _serial = 0

    def _name(self):
        return self.path if self.path is not None else "/proc/self/fd/%d" % self.fd

    def writer(self, mode="raw", bufsize=None, fail_at=None):
        if mode in ("append", "bufappend"):
            # a handle opened for appending (O_APPEND): seek() does not move where writes land
            f = open(self._name(), "ab", buffering=0 if mode == "append" else max(2, bufsize or 64))
            return SimFile(self, f, append=True, fail_at=fail_at)
        raw = io.FileIO(self.path, "r+") if self.path is not None else io.FileIO(os.dup(self.fd), "r+", closefd=True)
        if mode == "raw":
            f = raw
        elif mode == "bufw":
            f = io.BufferedWriter(raw, buffer_size=bufsize or 64)
        elif mode == "bufrw":
            f = io.BufferedRandom(raw, buffer_size=bufsize or 4096)
        else:
            raise ValueError(mode)
        return SimFile(self, f, fail_at=fail_at)

    def restart(self, mode="raw"):
        """Fresh open file description at offset 0, as a process started after the crash sees it."""
        if mode in ("rw", "bufrw"):
            # the reader opened the file for update ("r+b"): loading must still neither accept nor alter a torn file
            raw = io.FileIO(os.open(self._name(), os.O_RDWR), "r+", closefd=True)
            return raw if mode == "rw" else io.BufferedRandom(raw)
        if self.path is not None:
            raw = io.FileIO(self.path, "r")
        else:
            raw = io.FileIO(os.open("/proc/self/fd/%d" % self.fd, os.O_RDONLY), "r", closefd=True)
        return raw if mode == "raw" else io.BufferedReader(raw)

    def content(self):
        size = os.fstat(self.fd).st_size
        return os.pread(self.fd, size, 0) if size else b""

    def size(self):
        return os.fstat(self.fd).st_size

    def close(self):
        try:
            os.close(self.fd)
        except OSError:
            pass
        if self.path is not None:
            try:
                os.unlink(self.path)
            except OSError:
                pass
            try:
                os.rmdir(os.path.dirname(self.path))
            except OSError:
                pass

    def __enter__(self):
        return self

    def __exit__(self, *exc):
        self.close()


def apply_log(ops, upto=None, torn=None):
    """File content after applying ops[:upto] fully and the first `torn` bytes of ops[upto]."""
    buf = bytearray()

    def put(off, data):
        end = off + len(data)
        if end > len(buf):
            buf.extend(b"\0" * (end - len(buf)))
        buf[off:end] = data

    n = len(ops) if upto is None else upto
    for kind, off, data in ops[:n]:
        if kind in ("py", "c"):
            put(off, data)
        elif kind == "truncate":
            del buf[off:]
    if upto is not None and upto < len(ops) and torn:
        kind, off, data = ops[upto]
        if kind in ("py", "c"):
            put(off, data[:torn])
    return bytes(buf)


def crash_states(ops):
    """Yield (op_index, torn_bytes, content) for every byte-granular crash point of the log.

    The complete file (all operations applied) is *not* a crash state.  States are yielded in
    order; consecutive duplicates (operations that write nothing) are skipped.
    """
    last = None
    for j, (kind, off, data) in enumerate(ops):
        span = len(data) if kind in ("py", "c") else 1
        for m in range(span):
            content = apply_log(ops, j, m)
            if content != last:
                last = content
                yield j, m, content


def check_log_reproduces(ops, disk):
    if apply_log(ops) != disk.content():
        raise SeamBypassed("write log (%d ops) does not reproduce the %d-byte file" % (len(ops), disk.size()))


class FullDisk:
    """Context manager: the simulated disk is full after `limit` bytes (kernel-enforced)."""

    def __init__(self, limit):
        self.limit = limit

    def __enter__(self):
        self.old = resource.getrlimit(resource.RLIMIT_FSIZE)
        resource.setrlimit(resource.RLIMIT_FSIZE, (self.limit, self.old[1]))
        return self

    def __exit__(self, *exc):
        resource.setrlimit(resource.RLIMIT_FSIZE, self.old)
        return False
