"""System-call seam for code that goes around the file object it was handed.

``IndxIO.save`` gets a file object, and that is the seam the simulated disk normally watches.  Code may
still reach for the descriptor (``os.pwrite(f.fileno(), ...)``, ``os.posix_fallocate``, ``os.ftruncate``).
After catii is imported every module-global of ``catii.indxio`` that is the ``os`` module (or a function
taken from it) is replaced by this proxy, which counts the mutating calls and can make the device fail:
from the fault point on EVERY further mutating call raises EIO -- the process is gone, nothing more reaches
the disk -- after a write has got half of its bytes out.
"""
import errno
import os as _os

MUTATING = ("write", "pwrite", "writev", "pwritev", "posix_fallocate", "ftruncate", "truncate", "fsync",
            "fdatasync", "sendfile", "copy_file_range")


class OsProxy:
    def __init__(self):
        self.calls = 0
        self.fail_at = None
        self.dead = False

    def reset(self, fail_at=None):
        self.calls = 0
        self.fail_at = fail_at
        self.dead = False

    def _gate(self, name, args):
        if self.dead:
            raise OSError(errno.EIO, "simulated device failure (after system call %r)" % (self.fail_at,))
        idx = self.calls
        self.calls += 1
        if self.fail_at is not None and idx == self.fail_at:
            self.dead = True
            if name in ("write", "pwrite") and len(args) >= 2:
                data = bytes(args[1])
                if len(data) > 1:
                    half = data[: len(data) // 2]
                    if name == "write":
                        _os.write(args[0], half)
                    else:
                        _os.pwrite(args[0], half, args[2])
            raise OSError(errno.EIO, "simulated device failure at system call %d (%s)" % (idx, name))

    def __getattr__(self, name):
        real = getattr(_os, name)
        if name in MUTATING and callable(real):
            def wrapped(*args, **kwargs):
                self._gate(name, args)
                return real(*args, **kwargs)

            wrapped.__name__ = name
            return wrapped
        return real


PROXY = OsProxy()


def install_into(module):
    """Replace references to os / os functions held by `module`'s globals; return how many were replaced."""
    n = 0
    for key, val in list(vars(module).items()):
        if val is _os:
            setattr(module, key, PROXY)
            n += 1
        elif callable(val) and getattr(val, "__name__", None) in MUTATING and getattr(_os, val.__name__, None) is val:
            setattr(module, key, getattr(PROXY, val.__name__))
            n += 1
    return n
