"""Shared plumbing: seed derivation, the multi-process run farm, violations, replay files,
known findings and evidence files.

One integer decides everything: run ``i`` of property ``P`` under ``VERIF_SEED=s`` owns
``random.Random(run_seed(s, P, i))`` and nothing else is ever consulted (no clock, no
``os.urandom``, no hash order).  The set of runs of a tier is ``range(n_runs)`` -- a fixed
count, not a wall-clock budget -- and results are aggregated in run-index order, so the
outcome does not depend on the number of worker processes.
"""
import collections
import faulthandler
import hashlib
import json
import os
import random
import subprocess
import sys
import time
import traceback

VERIF = os.path.dirname(os.path.dirname(os.path.abspath(__file__)))
# runs against a scratch copy (tools/mutant_run.sh) must not overwrite the evidence of runs against /repo
EVIDENCE_DIR = os.environ.get("VERIF_EVIDENCE_DIR") or os.path.join(VERIF, "evidence")
REPLAY_DIR = os.path.join(VERIF, "replays")
KNOWN_FINDINGS = os.path.join(VERIF, "known_findings.json")

EXIT_OK, EXIT_VIOLATION, EXIT_HARNESS = 0, 1, 2


class HarnessError(Exception):
    """The machinery itself misbehaved (never reported as a violation, never as a pass)."""


class WorkerDied(HarnessError):
    """A forked batch child died without delivering a result (signal / hard exit)."""

    def __init__(self, job, how):
        HarnessError.__init__(self, "worker for runs [%d, %d) died (%s) without a result; see stderr" % (job[1], job[2], how))
        self.job = job
        self.how = how


class Violation(Exception):
    """A property does not hold on this run.

    vclass: short machine-readable class (e.g. ``dense-mismatch``); kept stable under
    minimisation.  where: the operation / call site it was observed at.
    """

    def __init__(self, prop, vclass, where, message, extra=None):
        Exception.__init__(self, "%s %s@%s: %s" % (prop, vclass, where, message))
        self.prop = prop
        self.vclass = vclass
        self.where = where
        self.message = message
        self.extra = extra or {}

    @property
    def signature(self):
        return "%s@%s" % (self.vclass, self.where)

    def to_json(self):
        return {
            "property": self.prop,
            "vclass": self.vclass,
            "where": self.where,
            "signature": self.signature,
            "message": self.message,
            "extra": self.extra,
        }


def run_seed(base_seed, prop, index):
    h = hashlib.blake2b(
        ("%d|%s|%d" % (int(base_seed), prop, int(index))).encode(), digest_size=8
    ).digest()
    return int.from_bytes(h, "big")


def rng_for(base_seed, prop, index):
    return random.Random(run_seed(base_seed, prop, index))


def digest_of(obj):
    """Stable 64-bit digest of a JSON-able object (sorted keys)."""
    data = json.dumps(obj, sort_keys=True, separators=(",", ":"), default=_json_default)
    return int.from_bytes(hashlib.blake2b(data.encode(), digest_size=8).digest(), "big")


def _json_default(o):
    try:
        import numpy

        if isinstance(o, numpy.ndarray):
            return {"__nd__": o.tolist(), "dtype": str(o.dtype)}
        if isinstance(o, numpy.generic):
            return o.item()
    except ImportError:  # pragma: no cover
        pass
    if isinstance(o, (set, frozenset)):
        return sorted(o)
    if isinstance(o, bytes):
        return o.hex()
    raise TypeError("not JSON-able: %r" % (type(o),))


def dumps(obj, **kw):
    return json.dumps(obj, default=_json_default, **kw)


class EventLog:
    """Order-sensitive digest of everything a run decided and observed.

    ``add`` never draws from a PRNG and never reads a clock, so logging cannot perturb the
    schedule.  Two runs with the same digest made the same decisions and observations.
    """

    __slots__ = ("_h", "n")

    def __init__(self):
        self._h = hashlib.blake2b(digest_size=8)
        self.n = 0

    def add(self, *items):
        self.n += 1
        self._h.update(repr(items).encode())

    def add_bytes(self, b):
        self.n += 1
        self._h.update(b)

    def hexdigest(self):
        return self._h.hexdigest()


class Stats:
    """Per-run / per-batch measurements: counters, distinct-digest sets, a few samples."""

    def __init__(self):
        self.counters = collections.Counter()
        self.distinct = collections.defaultdict(set)
        self.samples = []
        self.maxima = {}

    def count(self, key, n=1):
        self.counters[key] += n

    def see(self, measure, digest):
        self.distinct[measure].add(digest)

    def maximum(self, key, value):
        if value > self.maxima.get(key, value - 1):
            self.maxima[key] = value

    def sample(self, obj, limit=3):
        if len(self.samples) < limit:
            self.samples.append(obj)

    def merge(self, other):
        self.counters.update(other.counters)
        for k, v in other.distinct.items():
            self.distinct[k] |= v
        for k, v in other.maxima.items():
            self.maximum(k, v)
        for s in other.samples:
            self.sample(s, limit=6)


# --------------------------------------------------------------------------- run farm

_WORKER_FN = None


def _batch_entry(args):
    """Runs in a freshly forked child: execute run indexes [lo, hi) and return the aggregate."""
    base_seed, lo, hi, opts = args
    faulthandler.dump_traceback_later(opts.get("batch_timeout", 900), exit=True)
    try:
        stats = Stats()
        violations = []
        logd = hashlib.blake2b(digest_size=8)
        for idx in range(lo, hi):
            try:
                d = _WORKER_FN(base_seed, idx, stats, opts)
                logd.update(("%d:%s;" % (idx, d)).encode())
            except Violation as v:
                logd.update(("%d:V:%s;" % (idx, v.signature)).encode())
                stats.count("violating_runs")
                if len(violations) < 4 or all(v.signature != w[1]["signature"] for w in violations):
                    if len(violations) < 40:
                        vj = v.to_json()
                        vj["batch_lo"] = lo
                        violations.append((idx, vj))
        return {"lo": lo, "stats": stats, "violations": violations, "log": logd.hexdigest()}
    except Exception:
        return {"lo": lo, "error": traceback.format_exc()}
    finally:
        faulthandler.cancel_dump_traceback_later()


def _spawn(job):
    """Fork a child that runs one batch and pickles its result into a pipe.

    Every batch starts from the parent's state (the library imported, no run executed yet), so a
    batch is hermetic: state the library keeps between calls (caches, globals) can only come from
    earlier runs of the SAME batch, and re-running the batch prefix in a fresh process reproduces it.
    """
    import pickle

    r, w = os.pipe()
    sys.stdout.flush()
    sys.stderr.flush()
    pid = os.fork()
    if pid == 0:
        code = 0
        try:
            os.close(r)
            data = pickle.dumps(_batch_entry(job), protocol=pickle.HIGHEST_PROTOCOL)
            with os.fdopen(w, "wb") as fh:
                fh.write(data)
        except BaseException:
            traceback.print_exc()
            code = 1
        finally:
            os._exit(code)
    os.close(w)
    return pid, r


def run_batches(jobs, workers, batch_timeout):
    """Run jobs in at most `workers` concurrent forked children; return their results (any order)."""
    import pickle
    import select

    results = []
    pending = list(reversed(jobs))
    running = {}  # read fd -> [pid, job, chunks, t0]
    try:
        while pending or running:
            while pending and len(running) < workers:
                job = pending.pop()
                pid, r = _spawn(job)
                running[r] = [pid, job, [], time.time()]
            ready, _, _ = select.select(list(running), [], [], 5.0)
            for r in ready:
                chunk = os.read(r, 1 << 20)
                if chunk:
                    running[r][2].append(chunk)
                    continue
                pid, job, chunks, _t0 = running.pop(r)
                os.close(r)
                _, status = os.waitpid(pid, 0)
                data = b"".join(chunks)
                if not data:
                    how = "signal %d" % os.WTERMSIG(status) if os.WIFSIGNALED(status) else "exit %d" % os.WEXITSTATUS(status)
                    raise WorkerDied(job, how)
                results.append(pickle.loads(data))
            now = time.time()
            for r, (pid, job, _c, t0) in list(running.items()):
                if now - t0 > batch_timeout + 60:
                    raise HarnessError("worker for runs [%d, %d) exceeded the wall-clock guard" % (job[1], job[2]))
    finally:
        for r, (pid, _job, _c, _t0) in running.items():
            try:
                os.kill(pid, 9)
                os.waitpid(pid, 0)
                os.close(r)
            except OSError:
                pass
    return results


def farm(run_fn, base_seed, n_runs, opts=None, workers=None, batch=None):
    """Execute run_fn(base_seed, idx, stats, opts) for idx in range(n_runs).

    run_fn returns the hex digest of its event log, or raises Violation.  Returns
    (Stats, violations sorted by run index, total log digest).
    """
    global _WORKER_FN
    opts = dict(opts or {})
    workers = workers or int(os.environ.get("VERIF_WORKERS", "0")) or min(16, os.cpu_count() or 1)
    if batch is None:
        batch = max(1, min(200, n_runs // (workers * 8) or 1))
    _WORKER_FN = run_fn
    jobs = [(base_seed, lo, min(lo + batch, n_runs), opts) for lo in range(0, n_runs, batch)]
    try:
        results = run_batches(jobs, workers, opts.get("batch_timeout", 900))
    except WorkerDied as dead:
        # A run that kills its process (SIGSEGV / SIGBUS / hard exit) is a violation of whatever was being
        # checked, provided it can be pinned to one run that dies on its own in a fresh child.
        _, lo, hi, _ = dead.job
        single = dict(opts, batch_timeout=min(180, opts.get("batch_timeout", 900)))  # one run never needs minutes
        for idx in range(lo, hi):
            try:
                run_batches([(base_seed, idx, idx + 1, single)], 1, single["batch_timeout"])
            except WorkerDied as again:
                vj = {"property": opts.get("prop", "?"), "vclass": "process-killed", "where": "run",
                      "signature": "process-killed@run", "batch_lo": idx,
                      "message": "run %d killed its process or never finished (%s; 'exit 1' = the hang guard fired)" % (idx, again.how),
                      "extra": {"case": {"rerun": {"verif_seed": base_seed, "tier": opts.get("tier", "quick"),
                                                   "lo": idx, "hi": idx, "why": "the run kills the interpreter"}}}}
                total = Stats()
                total.count("violating_runs")
                return total, [(idx, vj)], "process-killed"
        raise
    results.sort(key=lambda r: r["lo"])
    total = Stats()
    violations = []
    logd = hashlib.blake2b(digest_size=8)
    for r in results:
        if "error" in r:
            raise HarnessError("worker raised:\n" + r["error"])
        total.merge(r["stats"])
        violations.extend(r["violations"])
        logd.update(r["log"].encode())
    violations.sort(key=lambda iv: iv[0])
    return total, violations, logd.hexdigest()


def rerun_range(run_fn, base_seed, lo, hi, opts):
    """Re-execute runs [lo, hi] in ONE fresh child, in order; return the violations found."""
    global _WORKER_FN
    _WORKER_FN = run_fn
    try:
        res = run_batches([(base_seed, lo, hi + 1, dict(opts or {}))], 1, 900)[0]
    except WorkerDied as dead:
        return [(hi, {"signature": "process-killed@run", "message": "runs %d..%d killed the process (%s)" % (lo, hi, dead.how)})]
    if "error" in res:
        raise HarnessError("worker raised:\n" + res["error"])
    return res["violations"]


# --------------------------------------------------------------------------- findings


def load_known_findings():
    if not os.path.exists(KNOWN_FINDINGS):
        return []
    with open(KNOWN_FINDINGS) as fh:
        return json.load(fh).get("findings", [])


def match_known(prop, signature, findings=None):
    """Return the open finding that lists this exact (property, signature), else None.

    'fixed' entries never suppress anything.
    """
    for f in findings if findings is not None else load_known_findings():
        if f.get("status") == "open" and f.get("property") == prop:
            if signature in f.get("signatures", []):
                return f
    return None


# --------------------------------------------------------------------------- replay files


def write_replay(prop, seed, run_index, case, violation, minimised_from=None):
    os.makedirs(REPLAY_DIR, exist_ok=True)
    name = "%s-%s-%s.json" % (prop, seed, run_index)
    path = os.path.join(REPLAY_DIR, name)
    doc = {
        "property": prop,
        "verif_seed": seed,
        "run_index": run_index,
        "violation": violation,
        "minimised_from": minimised_from,
        "case": case,
    }
    with open(path, "w") as fh:
        fh.write(dumps(doc, indent=1, sort_keys=True))
    return path


def read_replay(path):
    with open(path) as fh:
        return json.load(fh)


def confirm_replay_in_fresh_process(prop, path, expect_signature):
    """Replay the file in a fresh interpreter; it must fail the same way."""
    cmd = [os.path.join(VERIF, "check"), prop, "--replay", path]
    env = dict(os.environ)
    env.pop("VERIF_CATII_TREE", None)
    p = subprocess.run(cmd, stdout=subprocess.PIPE, stderr=subprocess.STDOUT, env=env, timeout=900)
    out = p.stdout.decode(errors="replace")
    ok = p.returncode == EXIT_VIOLATION and ("signature=%s" % expect_signature) in out
    return ok, out


# --------------------------------------------------------------------------- evidence


def write_evidence(prop, tier, seed, level, coverage, assumptions, wall_s, violations, extra=None):
    os.makedirs(EVIDENCE_DIR, exist_ok=True)
    doc = {
        "property_id": prop,
        "tier": tier,
        "seed": int(seed),
        "level": level,
        "coverage": coverage,
        "assumptions": assumptions,
        "wall_s": round(float(wall_s), 3),
        "violations": int(violations),
    }
    if extra:
        doc.update(extra)
    path = os.path.join(EVIDENCE_DIR, "%s.json" % prop)
    tmp = path + ".tmp"
    with open(tmp, "w") as fh:
        fh.write(dumps(doc, indent=1, sort_keys=True))
    os.replace(tmp, path)
    return path


def stats_to_coverage(stats):
    cov = {
        "counters": dict(sorted(stats.counters.items())),
        "distinct": {k: len(v) for k, v in sorted(stats.distinct.items())},
        "maxima": dict(sorted(stats.maxima.items())),
    }
    return cov


def env_seed():
    try:
        return int(os.environ.get("VERIF_SEED", "0") or 0)
    except ValueError:
        return digest_of(os.environ["VERIF_SEED"]) & 0x7FFFFFFF


def env_tier(default="quick"):
    t = os.environ.get("VERIF_TIER", default)
    return t if t in ("quick", "thorough") else default


# --------------------------------------------------------------------------- ddmin


MINIMISE_BUDGET_S = float(os.environ.get("VERIF_MINIMISE_S", "90"))
_minimise_deadline = [None]


def start_minimise_clock():
    """Minimisation is best effort: all ddmin calls of one violation share one wall-clock budget.
    (The clock only bounds how far a failing case is shrunk; it never decides a verdict.)"""
    _minimise_deadline[0] = time.time() + MINIMISE_BUDGET_S


def minimise_time_left():
    return _minimise_deadline[0] is None or time.time() < _minimise_deadline[0]


def ddmin(items, still_fails, max_tests=400):
    """Classic delta debugging over a list; still_fails(sublist) -> bool."""
    tests = [0]

    def test(x):
        tests[0] += 1
        if not minimise_time_left():
            tests[0] = max_tests
            return False
        return still_fails(x)

    n = 2
    items = list(items)
    while len(items) >= 2 and tests[0] < max_tests:
        size = max(1, len(items) // n)
        subsets = [items[i : i + size] for i in range(0, len(items), size)]
        reduced = False
        for i in range(len(subsets)):
            complement = [x for j, s in enumerate(subsets) if j != i for x in s]
            if complement and test(complement):
                items = complement
                n = max(n - 1, 2)
                reduced = True
                break
        if not reduced:
            if n >= len(items):
                break
            n = min(len(items), n * 2)
    if len(items) == 1 and tests[0] < max_tests and test([]):
        items = []
    return items
