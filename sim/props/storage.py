"""C10 / C11 / C12 -- the INDX persistence seam on the simulated disk (engine ``disk``).

C10  fault-free arm: real save -> clean restart -> real load is the identity.
C11  two parties: the library and ``refcodec`` (independent, written from the format
     description) exchange files through the simulated disk in both directions; size
     arithmetic at >= 2**30 / 2**32 row ids is exercised with length-only stand-ins on a
     sparse memfd.
C12  fault arm: the real save is cut at every byte (crash states derived from its write log)
     and re-run against a disk that is full after every byte (RLIMIT_FSIZE); after a restart
     ``load`` must raise.
"""
import io
import os
import warnings

import numpy

from .. import core, disk, refcodec
from ..core import Violation

U32 = numpy.dtype(numpy.uint32)
WORD_CLASSES = (
    (0, 255),
    (256, 65535),
    (65536, (1 << 32) - 1),
    (1 << 32, (1 << 63) - 1),
)
ROWID_BOUNDARIES = (0, 1, 2, 254, 255, 256, 65535, 65536, (1 << 31) - 1, 1 << 31, (1 << 32) - 2, (1 << 32) - 1)

# total row-id counts for the size-arithmetic arm, as lists of per-entry lengths
SCALE_CASES = [
    [(1 << 30) - 8],
    [(1 << 30) - 5],
    [(1 << 30) - 3],
    [(1 << 30) - 1],
    [1 << 30],
    [(1 << 30) + 5],
    [1 << 29, 1 << 29],
    [(1 << 31) + 3],
    [(1 << 32) - 1],
    [(1 << 32) - 1, 17],
    [1 << 31, 1 << 31, 16],
    [3, (1 << 32) - 1, (1 << 32) - 1, 0, 5],
]


def catii_indxio():
    from catii import indxio

    return indxio.IndxIO


# ------------------------------------------------------------------------------ generation


def _value_in_class(rng, cls):
    lo, hi = WORD_CLASSES[cls]
    r = rng.random()
    if r < 0.25:
        return lo
    if r < 0.5:
        return hi
    if r < 0.6:
        return min(hi, lo + 1)
    if r < 0.7:
        return max(lo, hi - 1)
    return rng.randint(lo, hi)


def _value_upto_class(rng, cls):
    c = rng.randint(0, cls) if rng.random() < 0.5 else cls
    return _value_in_class(rng, c)


def gen_rowids(rng, maxlen, huge=False):
    n = rng.choice((0, 0, 1, 1, 2, 3, rng.randint(0, maxlen)))
    if huge:
        # more row ids than one / two bytes can count; payloads beyond 64 KiB / 1 MiB (rarely 16 MiB)
        n = rng.choice((255, 256, 257, 65535, 65536, 70000, 70000, 300000, 300000 if huge != "xl" else 4300000))
        start = rng.choice((0, 1, (1 << 32) - n - 1))
        step = rng.choice((1, 1, 2, 3)) if start < 10 else 1
        return {"range": [start, n, step]}
    style = rng.random()
    if style < 0.5:
        pool = range(0, 12)
        n = min(n, 12)
        return sorted(rng.sample(pool, n))
    vals = set()
    while len(vals) < n:
        if rng.random() < 0.5:
            vals.add(rng.choice(ROWID_BOUNDARIES))
        else:
            vals.add(rng.randint(0, (1 << 32) - 1))
    return sorted(vals)


def gen_case(rng, tier="quick"):
    """A JSON-able storage case: arity, common, entries in dict order, file-object modes."""
    big = tier == "thorough" and rng.random() < 0.2
    arity = rng.choice((1, 1, 2, 2, 3, 4))
    coord_cls = rng.randint(0, 3)
    common_cls = rng.randint(0, 3)
    n_entries = rng.choice((0, 1, 1, 2, 3, rng.randint(0, 24 if big else 8)))
    keys = []
    seen = set()
    tries = 0
    while len(keys) < n_entries and tries < 200:
        tries += 1
        if rng.random() < 0.5:
            # keep higher coordinates small, as real indexes do; the value carries the width
            k = (_value_upto_class(rng, coord_cls),) + tuple(rng.randint(0, 3) for _ in range(arity - 1))
        else:
            k = tuple(_value_upto_class(rng, coord_cls) for _ in range(arity))
        if k not in seen:
            seen.add(k)
            keys.append(k)
    entries = [[list(k), gen_rowids(rng, 40 if big else 6)] for k in keys]
    r = rng.random()
    if r < 0.004 and entries:
        # one entry with a long row-id array (lengths beyond 255 / 65535)
        entries[rng.randrange(len(entries))][1] = gen_rowids(rng, 0, huge="xl" if (tier == "thorough" and rng.random() < 0.1) else True)
    elif r < 0.0045 and len(entries) >= 2:
        # several big entries (payload beyond 4 MiB, more than one block of it)
        for e in entries[:2]:
            e[1] = {"range": [rng.choice((0, 5)), rng.choice((600000, 700000)), 1]}
    elif r < 0.006:
        # many entries (index lengths beyond 255 / 65535), each tiny
        n_many = rng.choice((256, 300, 65536, 66000))
        base = _value_in_class(rng, coord_cls)
        entries = [[[base + i] + [0] * (arity - 1), [i] if i % 3 else []] for i in range(n_many)]
        entries = [e for e in entries if e[0][0] < (1 << 63)]
    elif r < 0.014:
        # dense, small-valued: many row ids in total although every value fits one (or two) bytes
        nrows = rng.choice((200, 256, 300, 600, 70000 if rng.random() < 0.1 else 255))
        nkeys = rng.choice((2, 3, 4))
        base = rng.randint(0, 3)
        owner = [rng.randrange(nkeys) for _ in range(nrows)]
        entries = [[[base + j] + [0] * (arity - 1), [r_ for r_ in range(nrows) if owner[r_] == j]] for j in range(nkeys)]
    return {
        "kind": "entries",
        "arity": arity,
        "common": _value_in_class(rng, common_cls),
        "entries": entries,
        "wmode": rng.choice(disk.WRITER_MODES),
        "rmode": rng.choice(disk.READER_MODES),
        "bufsize": rng.choice((1, 7, 16, 64, 512, 8192)),
        "strided": rng.random() < 0.1,
        "backing": "path" if rng.random() < 0.2 else "memfd",
        "numpy_common": rng.random() < 0.05,
        "numpy_keys": rng.random() < 0.06,
    }


def derive_case(rng, base):
    """A second file related to `base`: same process, a little later.  Relations that matter for state kept
    between calls: same coordinates under another word size, same bytes under another interpretation,
    one entry more / fewer, another common value."""
    c = dict(base)
    c.pop("shape", None)
    c["entries"] = [[list(k), v] for k, v in base["entries"]]
    r = rng.random()
    if r < 0.3:
        # same coordinates, common value from another word class
        c["common"] = _value_in_class(rng, rng.randint(0, 3))
    elif r < 0.55 and base["entries"]:
        # the coordinate block's BYTES re-read under another word size (same arity)
        mx = max([c0 for k, _ in base["entries"] for c0 in k])
        w1 = refcodec.narrowest_word(max(mx, base["common"]))
        blob = b"".join(int(x).to_bytes(w1, "little") for k, _ in base["entries"] for x in k)
        w2 = rng.choice([w for w in (1, 2, 4, 8) if w != w1])
        arity = base["arity"]
        n = len(blob) // (w2 * arity)
        keys = []
        for i in range(n):
            k = tuple(int.from_bytes(blob[(i * arity + j) * w2:(i * arity + j + 1) * w2], "little") for j in range(arity))
            if k not in keys and all(x < (1 << 63) for x in k):
                keys.append(k)
        c["entries"] = [[list(k), gen_rowids(rng, 6)] for k in keys]
        lo, hi = WORD_CLASSES[{1: 0, 2: 1, 4: 2, 8: 3}[w2]]
        c["common"] = rng.choice((lo if lo else 1, hi, rng.randint(lo, hi)))
    elif r < 0.7 and base["entries"]:
        c["entries"] = c["entries"][:-1] if rng.random() < 0.5 else c["entries"][1:]
    elif r < 0.85:
        k = [_value_in_class(rng, rng.randint(0, 3))] + [0] * (base["arity"] - 1)
        if k not in [e[0] for e in c["entries"]]:
            c["entries"].append([k, gen_rowids(rng, 6)])
    else:
        c["entries"] = [[k, gen_rowids(rng, 6)] for k, _ in c["entries"]]
    c["wmode"] = rng.choice(("raw", "bufw", "bufrw"))
    c["rmode"] = rng.choice(disk.READER_MODES)
    # saved OVER the previous file (handle rewound, nothing truncated): a shorter index leaves a stale tail
    c["over_previous"] = rng.random() < 0.5
    return c


def case_from_index(idx, rng):
    """A storage case holding the entries of a real iindex (unsigned values only)."""
    entries = [[list(k), v.tolist()] for k, v in dict.items(idx)]
    return {
        "kind": "entries",
        "arity": len(idx.shape),
        "common": int(idx.common),
        "entries": entries,
        "shape": list(idx.shape),
        "wmode": rng.choice(disk.WRITER_MODES),
        "rmode": rng.choice(disk.READER_MODES),
    }


def rows_of(v):
    """Row ids of an entry: a plain list, or the compact form {"range": [start, count, step]}."""
    if isinstance(v, dict):
        start, count, step = v["range"]
        return list(range(start, start + count * step, step))
    return v


def expand(case):
    """Same case with every compact row-id range written out (in memory only)."""
    if case.get("kind") != "entries" or not any(isinstance(v, dict) for _, v in case["entries"]):
        return case
    return dict(case, entries=[[k, rows_of(v)] for k, v in case["entries"]])


def entries_dict(case):
    out = {tuple(k): numpy.array(rows_of(v), dtype=U32) for k, v in case["entries"]}
    if case.get("numpy_keys") and out:
        # coordinates as NumPy scalars of the narrowest dtype, as tuple(row) over a coordinate array gives them
        mx = max(c for k in out for c in k)
        dt = numpy.dtype("u%d" % refcodec.narrowest_word(mx))
        out = {tuple(dt.type(c) for c in k): v for k, v in out.items()}
    if case.get("strided"):
        from .. import model

        out = model.strided(out)
    return out


# ------------------------------------------------------------------------------ primitives


def real_save(case, d, log, mode=None):
    """Run the real IndxIO.save on simulated disk d through a logging SimFile; return it."""
    IndxIO = catii_indxio()
    f = d.writer(mode or case["wmode"], case.get("bufsize"))
    if f.append:
        f.ops_reliable = False  # offsets of writes through an O_APPEND handle are not what tell() says
    entries = entries_dict(case)
    try:
        with warnings.catch_warnings():
            warnings.simplefilter("ignore")
            IndxIO.save(f, entries, numpy.int64(case["common"]) if case.get("numpy_common") else case["common"], U32)
        f.flush()
    except Exception as e:
        raise SaveRaised(e)
    log.add("save", tuple(f.calls))
    f.tell_end = f._f.tell() if not f.append else d.size()
    return f


HELD = []  # (case, loaded) of the earlier files of the current run
BACKING = ["memfd"]  # what the torn files of the current C12 case live on
PREVIOUS_BYTES = [None]  # the complete previous file of the current run (for "saved over the previous file")


class SaveRaised(Exception):
    """The fault-free save of an in-domain input raised (C10/C11 judge it; C12 skips the file)."""


def real_load(d, rmode="raw"):
    IndxIO = catii_indxio()
    f = d.restart(rmode)
    try:
        with warnings.catch_warnings():
            warnings.simplefilter("ignore")
            return IndxIO.load(f)
    finally:
        f.close()


def compare_loaded(prop, where, case, loaded, rowid_word=4):
    """The C10 oracle: what load returned is exactly what was saved."""
    entries, common, rowid_dtype = loaded
    want = [(tuple(k), v) for k, v in case["entries"]]
    if type(common) is not int:
        raise Violation(prop, "common-not-plain-int", where, "common is %r" % (type(common),))
    if common != case["common"]:
        raise Violation(prop, "common-differs", where, "saved %r loaded %r" % (case["common"], common))
    if list(entries.keys()) != [k for k, _ in want]:
        if set(entries.keys()) != {k for k, _ in want}:
            raise Violation(
                prop, "keys-differ", where,
                "saved %r loaded %r" % ([k for k, _ in want][:6], list(entries.keys())[:6]),
            )
    for k in entries:
        if any(type(c) is not int for c in k):
            raise Violation(prop, "coordinate-not-plain-int", where, "key %r" % (k,))
    for k, v in want:
        got = entries[k]
        if not isinstance(got, numpy.ndarray) or got.dtype != U32:
            raise Violation(prop, "rowids-not-uint32", where, "key %r dtype %r" % (k, getattr(got, "dtype", type(got))))
        if got.tolist() != v:
            raise Violation(prop, "rowids-differ", where, "key %r saved %r loaded %r" % (k, v[:8], got.tolist()[:8]))
    if numpy.dtype(rowid_dtype).itemsize != rowid_word:
        raise Violation(prop, "rowid-dtype-differs", where, "reported %r for word %d" % (rowid_dtype, rowid_word))


def case_digest(case):
    return core.digest_of([case["common"], case["entries"]])


def nontrivial(case):
    return len(case["entries"]) >= 1 and any(rows_of(v) if isinstance(v, list) else True for _, v in case["entries"])


def word_profile(case):
    mx = max([c for k, _ in case["entries"] for c in k] or [0])
    return "coords%d-common%d-arity%d" % (
        refcodec.narrowest_word(mx), refcodec.narrowest_word(case["common"]), case["arity"]
    )


# ------------------------------------------------------------------------------ C10


def hist_index_case(rng):
    """An index produced by the C06 generators (only those INDX can express)."""
    from .. import gen

    return gen.storage_case_from_generated_index(rng)


def pick_case(rng, tier):
    if rng.random() < 0.25:
        c = hist_index_case(rng)
        if c is not None:
            return c
    return gen_case(rng, tier)


def pick_files(rng, tier):
    """One run = 1-3 files handled one after the other in the same process (most often one)."""
    first = pick_case(rng, tier)
    files = [first]
    if rng.random() < 0.3 and sum(len(rows_of(v)) for _, v in first["entries"]) < 5000 and len(first["entries"]) < 500:
        for _ in range(rng.choice((1, 1, 2))):
            files.append(derive_case(rng, files[-1]) if rng.random() < 0.8 else gen_case(rng, tier))
    return files[0] if len(files) == 1 else {"kind": "multi", "files": files}


def c10_execute(case, stats, log):
    prop = "C10"
    case = expand(case)
    stale = PREVIOUS_BYTES[0] if case.get("over_previous") else None
    with disk.SimDisk(stale, backing=case.get("backing", "memfd")) as d:
        if stale:
            stats.count("probe_saved_over_previous_file")
        f = real_save(case, d, log)
        if not f.append and not stale:
            disk.check_log_reproduces(f.ops, d)
        f.close()
        content = d.content()
        if stale and len(stale) > f.tell_end:
            stats.count("probe_stale_tail_after_shorter_save")
            content = content[: f.tell_end]
        PREVIOUS_BYTES[0] = content if len(content) < 20000 else None
        log.add_bytes(content)
        try:
            loaded = real_load(d, case["rmode"])
        except Exception as e:
            raise Violation(prop, "load-raised:" + type(e).__name__, "save-load", "load of a complete file raised %r" % (e,))
        compare_loaded(prop, "save-load", case, loaded)
        # what earlier loads of this run returned must still be intact (nothing handed out twice)
        for n, (old_case, old_loaded) in enumerate(HELD):
            try:
                compare_loaded(prop, "earlier-load-still-intact", old_case, old_loaded)
            except Violation as v:
                v.message = "after the next load, the result of an earlier load changed: " + v.message
                raise
        HELD.append((case, loaded))
        if len(HELD) > 1:
            stats.count("probe_earlier_load_rechecked_after_next_load")
        if "shape" in case:
            from catii import iindex

            shape = tuple(case["shape"])
            original = iindex(entries_dict(case), case["common"], shape)
            rebuilt = iindex(dict(loaded[0]), loaded[1], shape)
            if not (rebuilt == original):
                raise Violation(prop, "rebuilt-index-unequal", "save-load", "rebuilt %r != %r" % (rebuilt, original))
            try:
                rebuilt.validate(True)
            except Exception as e:
                raise Violation(prop, "rebuilt-index-invalid", "save-load", repr(e))
            stats.count("index_derived_cases")
        stats.count("roundtrips")
        stats.count("wmode_" + case["wmode"])
        stats.count("backing_" + case.get("backing", "memfd"))
        stats.count("rmode_" + case["rmode"])
        stats.count("profile_" + word_profile(case))
        stats.count("c_level_blocks", sum(1 for o in f.ops if o[0] == "c"))
        stats.count("py_level_writes", sum(1 for o in f.ops if o[0] == "py"))
        if not case["entries"]:
            stats.count("empty_entry_sets")
        if any(not v for _, v in case["entries"]):
            stats.count("cases_with_empty_rowid_array")


def c10_run(base_seed, idx, stats, opts):
    rng = core.rng_for(base_seed, "storage", idx)
    case = pick_files(rng, opts.get("tier", "quick"))
    return run_case("C10", case, stats)


# ------------------------------------------------------------------------------ C11


class StandIn:
    """Length-only stand-in for a huge uint32 row-id array: tofile() seeks instead of writing."""

    dtype = U32
    itemsize = 4
    ndim = 1

    def __init__(self, n):
        self.n = n
        self.size = n
        self.shape = (n,)
        self.nbytes = 4 * n

    def __len__(self):
        return self.n

    def tofile(self, f):
        f.flush()
        pos = f.tell()
        new = pos + 4 * self.n
        fd = f.fileno()
        if os.fstat(fd).st_size < new:
            os.ftruncate(fd, new)
        f.seek(new, 0)


def c11_scale(case, stats, log):
    prop = "C11"
    IndxIO = catii_indxio()
    lengths = case["lengths"]
    entries = {(i + 1,): StandIn(n) for i, n in enumerate(lengths)}
    total = sum(lengths)
    want = refcodec.payload_size(len(lengths), 1, 1, 4, total)
    where = "save-scale"
    with disk.SimDisk() as d:
        raw = io.FileIO(os.dup(d.fd), "r+", closefd=True)
        try:
            with warnings.catch_warnings():
                warnings.simplefilter("ignore")
                IndxIO.save(raw, entries, 0, U32)
        except Exception as e:
            raise Violation(prop, "save-raised-at-scale:" + type(e).__name__, where,
                            "total row ids %d (lengths %r): %r" % (total, lengths, e))
        finally:
            raw.close()
        size_word = int.from_bytes(os.pread(d.fd, 8, 8), "little")
        flen = d.size()
        log.add("scale", lengths, size_word, flen)
        if size_word != want or flen != 16 + want:
            raise Violation(prop, "size-word-wrong-at-scale", where,
                            "total row ids %d: size word %d, file length %d, documented %d"
                            % (total, size_word, flen, want))
        # the loader, too, must do its arithmetic in wide integers: lengths come back right
        # (views over the sparse mapping; no page is touched)
        f = d.restart("raw")
        try:
            with warnings.catch_warnings():
                warnings.simplefilter("ignore")
                loaded = IndxIO.load(f)
        except Exception as e:
            raise Violation(prop, "load-raised-at-scale:" + type(e).__name__, "load-scale", repr(e))
        finally:
            f.close()
        got = [len(loaded[0][(i + 1,)]) if (i + 1,) in loaded[0] else None for i in range(len(lengths))]
        del loaded
        if got != lengths:
            raise Violation(prop, "loaded-lengths-wrong-at-scale", "load-scale", "%r != %r" % (got, lengths))
    stats.count("scale_cases")
    if total >= 1 << 30:
        stats.count("scale_total_ge_2^30")
    if total >= 1 << 32:
        stats.count("scale_total_ge_2^32")


NARROW_CASES = [
    {"kind": "narrow", "word": 1, "n": 255}, {"kind": "narrow", "word": 1, "n": 256},
    {"kind": "narrow", "word": 2, "n": 65535}, {"kind": "narrow", "word": 2, "n": 65536},
    {"kind": "narrow", "word": 1, "n": 7}, {"kind": "narrow", "word": 8, "n": 300},
    {"kind": "narrow", "word": 4, "n": 5, "byteorder": ">"}, {"kind": "narrow", "word": 2, "n": 300, "byteorder": ">"},
]


def c11_narrow(case, stats, log):
    """The saver is handed row ids in another documented word size (1, 2 or 8 bytes).  Every row id fits; the
    COUNT of an entry may not (256 ids under 1-byte words).  Then save() may refuse, but it must never return
    normally having written a file that does not say what was saved."""
    prop = "C11"
    IndxIO = catii_indxio()
    word, n = case["word"], case["n"]
    dt = numpy.dtype("u%d" % word)
    rows = list(range(1, n + 1)) if case.get("byteorder") else list(range(n))
    entries = {(1,): numpy.array(rows, dtype=dt), (2,): numpy.array([], dtype=dt)}
    if case.get("byteorder"):
        # the caller's arrays are in the OTHER byte order (data read from a foreign source): the values are the same,
        # so save() may refuse the arrays or write them little-endian, but not write their bytes verbatim
        swapped = numpy.dtype(case["byteorder"] + "u%d" % word)
        entries = {k: v.astype(swapped) for k, v in entries.items()}
    with disk.SimDisk() as d:
        f = d.writer("raw")
        try:
            with warnings.catch_warnings():
                warnings.simplefilter("ignore")
                IndxIO.save(f, entries, 0, dt)
            f.flush()
        except Exception as e:
            stats.count("narrow_word_save_refused")
            log.add("narrow", word, n, type(e).__name__)
            if n < (1 << (8 * word)) and not case.get("byteorder"):
                raise Violation(prop, "save-raised:" + type(e).__name__, "save(rowid word %d)" % word,
                                "%d row ids under %d-byte words fit, but save raised %r" % (n, word, e))
            return
        finally:
            try:
                f.close()
            except Exception:
                pass
        data = d.content()
    log.add("narrow", word, n, len(data))
    want = [((1,), rows), ((2,), [])]
    try:
        dec, dcommon, _, rw = refcodec.decode(data)
    except Exception as e:
        raise Violation(prop, "independent-decoder-rejects", "save(rowid word %d)" % word,
                        "save returned normally for %d row ids under %d-byte words but the file is not the documented "
                        "layout: %r" % (n, word, e))
    if dec != want or dcommon != 0 or rw != word:
        raise Violation(prop, "independent-decoder-differs", "save(rowid word %d)" % word,
                        "save returned normally for %d row ids under %d-byte words but the file says %d/%d ids (word %d)"
                        % (n, word, len(dec[0][1]) if dec else -1, len(dec[1][1]) if len(dec) > 1 else -1, rw))
    stats.count("narrow_word_files_checked")


def c11_execute(case, stats, log):
    prop = "C11"
    if case["kind"] == "scale":
        return c11_scale(case, stats, log)
    if case["kind"] == "narrow":
        return c11_narrow(case, stats, log)
    case = expand(case)
    want_entries = [(tuple(k), v) for k, v in case["entries"]]
    del HELD[:]
    with disk.SimDisk() as d:
        f = real_save(case, d, log)
        if not f.append:
            disk.check_log_reproduces(f.ops, d)
        f.close()
        data = d.content()
    log.add_bytes(data)
    # (a) library writer vs. independent encoder, byte for byte
    ref = refcodec.encode(want_entries, case["common"], None, 4)
    if data != ref:
        k = next((i for i, (a, b) in enumerate(zip(data, ref)) if a != b), min(len(data), len(ref)))
        raise Violation(prop, "bytes-differ-from-documented-layout", "save",
                        "first difference at byte %d (lib %d bytes, documented %d bytes): lib %s doc %s"
                        % (k, len(data), len(ref), data[max(0, k - 4):k + 8].hex(), ref[max(0, k - 4):k + 8].hex()))
    # (b) + (d) independent decoder on the library's bytes
    try:
        dec, dcommon, iw, rw = refcodec.decode(data)
    except (refcodec.BadFile, Exception) as e:
        raise Violation(prop, "independent-decoder-rejects", "save", repr(e))
    if dec != want_entries or dcommon != case["common"]:
        raise Violation(prop, "independent-decoder-differs", "save", "decoded %r common %r" % (dec[:4], dcommon))
    stats.count("lib_to_ref_files")
    # (c) independent writer -> library loader, every admissible pair of word sizes
    biggest = max([case["common"]] + [c for k, _ in want_entries for c in k])
    maxrow = max([len(v) for _, v in want_entries] + [x for _, v in want_entries for x in v] + [0])
    big = len(want_entries) > 1000 or sum(len(v) for _, v in want_entries) > 5000
    for index_word in (1, 2, 4, 8):
        if index_word < refcodec.narrowest_word(biggest):
            continue
        for rowid_word in (1, 2, 4, 8):
            if refcodec.narrowest_word(maxrow) > rowid_word:
                continue
            if big and not (index_word == rowid_word == 8 or
                            (index_word == refcodec.narrowest_word(biggest) and rowid_word == refcodec.narrowest_word(maxrow))):
                continue  # big files: only the narrowest admissible pair and (8, 8)
            blob = refcodec.encode(want_entries, case["common"], index_word, rowid_word)
            where = "load(iw=%d,rw=%d)" % (index_word, rowid_word)
            if not big and (case_digest(case) + index_word + rowid_word) % 4 == 0:
                # the other tool re-saved in place over a longer earlier file, exactly as the library's own writer
                # does on an "r+b" handle: the size field delimits the payload, what follows it is not part of it
                blob += ref[-(1 + case_digest(case) % 40):]
                where += "+stale-tail"
                stats.count("ref_to_lib_files_followed_by_stale_tail")
            with disk.SimDisk(blob) as d2:
                try:
                    loaded = real_load(d2, case["rmode"])
                except Exception as e:
                    raise Violation(prop, "loader-rejects-documented-file:" + type(e).__name__, where, repr(e))
                compare_loaded(prop, where, case, loaded, rowid_word)
                for old_word, old_loaded in HELD[-2:]:
                    compare_loaded(prop, "earlier-load-still-intact", case, old_loaded, old_word)
                HELD.append((rowid_word, loaded))
            stats.count("ref_to_lib_files")
            stats.count("ref_to_lib_iw%d_rw%d" % (index_word, rowid_word))
    # (c') the documented layout has 8-byte words: another tool may store values in [2**63, 2**64) there, and the
    #      loader must hand them back exactly (the saver's own domain ends below 2**63, the format's does not)
    if want_entries and len(want_entries) <= 50 and case_digest(case) % 7 == 0:
        top = 1 << 63
        shifted = [((k[0] + top,) + tuple(k[1:]), v) for k, v in want_entries[:1]] + want_entries[1:]
        big_common = case["common"] + top if case_digest(case) % 2 else case["common"]
        if len({k for k, _ in shifted}) == len(shifted):
            blob = refcodec.encode(shifted, big_common, 8, 4)
            with disk.SimDisk(blob) as d3:
                try:
                    loaded = real_load(d3, case["rmode"])
                except Exception as e:
                    raise Violation(prop, "loader-rejects-documented-file:" + type(e).__name__, "load(values>=2^63)", repr(e))
            compare_loaded(prop, "load(values>=2^63)", dict(case, common=big_common, entries=[[list(k), v] for k, v in shifted]), loaded, 4)
            stats.count("ref_to_lib_values_beyond_int63")
    stats.count("profile_" + word_profile(case))


def c11_run(base_seed, idx, stats, opts):
    if idx < len(SCALE_CASES):
        case = {"kind": "scale", "lengths": SCALE_CASES[idx]}
    elif idx < len(SCALE_CASES) + len(NARROW_CASES):
        case = dict(NARROW_CASES[idx - len(SCALE_CASES)])
    else:
        rng = core.rng_for(base_seed, "storage", idx)
        case = pick_files(rng, opts.get("tier", "quick"))
    return run_case("C11", case, stats)


# ------------------------------------------------------------------------------ C12


def _must_reject(prop, content, where, rmode, stats, log, full_len, on_disk=None, full=None):
    """load() of the torn state must raise.  content: bytes for a fresh file, or None with on_disk set."""
    d = disk.SimDisk(content, backing=BACKING[0]) if on_disk is None else on_disk
    size = len(content) if on_disk is None else d.size()
    loaded = None
    try:
        try:
            loaded = real_load(d, rmode)
        except Exception as e:  # the required outcome
            log.add(where, size, type(e).__name__)
            stats.count("rejected_" + type(e).__name__)
        else:
            how = "%s handle on the file" % rmode
        if loaded is None and full is not None and on_disk is None and d.path is not None and size % 2 == 0:
            # crash, then the restarted writer retries through a temporary file and an atomic rename, while a reader
            # still holds its handle on the torn file: the path now names a complete file, the handle does not
            f = d.restart(rmode)
            try:
                tmp = d.path + ".tmp"
                with open(tmp, "wb") as t:
                    t.write(full)
                os.replace(tmp, d.path)
                stats.count("probe_torn_handle_outlives_rename_of_complete_file")
                with warnings.catch_warnings():
                    warnings.simplefilter("ignore")
                    loaded = catii_indxio().load(f)
                how = "%s handle opened before the writer's retry renamed a complete file over the path" % rmode
            except Exception as e:
                stats.count("rejected_after_rename_" + type(e).__name__)
                loaded = None
            finally:
                f.close()
    finally:
        if on_disk is None:
            d.close()
    if loaded is None and content is not None and size % 3 == 0:
        # the same torn bytes reaching load() through handles that cannot be mapped: an in-memory stream and a pipe
        IndxIO = catii_indxio()
        streams = [("BytesIO", io.BytesIO(content))]
        if size % 2 == 0:
            # ... and as an in-memory image, should load() take one (today it takes handles only and raises)
            streams.append(("bytes-like", bytearray(content) if size % 4 else memoryview(content)))
        if size <= 32768 and size % 4 == 0:
            r, w = os.pipe()
            os.write(w, content)
            os.close(w)
            streams.append(("pipe", os.fdopen(r, "rb")))
        for name, fobj in streams:
            try:
                with warnings.catch_warnings():
                    warnings.simplefilter("ignore")
                    loaded = IndxIO.load(fobj)
                how = name
                break
            except Exception:
                stats.count("rejected_through_" + name)
                loaded = None
            finally:
                try:
                    fobj.close()
                except Exception:
                    pass
    if loaded is None:
        return
    ents = loaded[0]
    raise Violation(
        prop, "torn-file-loaded", where.split(":")[0],
        "a %d-byte prefix state of a %d-byte file loaded without error (%s, via %s): %d entries, common %r"
        % (size, full_len, where, how, len(ents), loaded[1]),
        extra={"cut": size, "where": where},
    )


def is_big(case):
    return sum(len(rows_of(v)) for _, v in case["entries"]) > 600 or len(case["entries"]) > 200


def c12_big(case, stats, log):
    """Files too big for exhaustive enumeration: cut points sampled around every field boundary,
    the ends, page and power-of-two offsets, plus seeded random ones; crash states and full disk."""
    import random

    prop = "C12"
    case = expand(case)
    rmode = case["rmode"]
    with disk.SimDisk() as d:
        f = real_save(case, d, log)
        f.close()
        full = d.content()
    n = len(full)
    n_entries = len(case["entries"])
    mx = max([case["common"]] + [c for k, _ in case["entries"] for c in k])
    regs = refcodec.regions(n, n_entries, case["arity"] if n_entries else 0, refcodec.narrowest_word(mx), 4)
    ks = set(range(0, 26))
    for _, lo, hi in regs:
        ks.update((lo - 1, lo, lo + 1, lo + 4, hi - 1))
    for p2 in (4096, 65536, 1 << 20, 1 << 24):
        ks.update((p2 - 1, p2, p2 + 1, n - p2))
    ks.update((n - 1, n - 2, n - 3, n - 4, n - 5, n - 8, n // 2))
    rnd = random.Random(case_digest(case))
    ks.update(rnd.randrange(n) for _ in range(24))
    ks = sorted(k for k in ks if 0 <= k < n)
    for k in ks:
        stats.count("fault_crash_at_byte")
        stats.count("fault_crash_sampled_in_big_file")
        stats.count("cut_region_" + refcodec.region_of(k, regs, n))
        _must_reject(prop, full[:k], "crash:big:%d" % k, rmode, stats, log, n)
    for k in ks[::4]:
        with disk.SimDisk() as d:
            fobj = None
            with disk.FullDisk(k):
                try:
                    fobj = d.writer("raw")
                    with warnings.catch_warnings():
                        warnings.simplefilter("ignore")
                        catii_indxio().save(fobj, entries_dict(case), case["common"], U32)
                except Exception:
                    pass
                try:
                    if fobj is not None:
                        fobj.close()
                except Exception:
                    pass
            survived = d.content()
        stats.count("fault_disk_full")
        if len(survived) > k or survived == full:
            raise core.HarnessError("RLIMIT_FSIZE=%d left %d bytes of %d" % (k, len(survived), n))
        _must_reject(prop, survived, "fulldisk:big:%d" % k, rmode, stats, log, n)
    with disk.SimDisk() as d:
        probe = real_save(case, d, log)
        ncalls = len(probe.calls)
        probe.close()
    idxs = sorted(set(range(min(ncalls, 30))) | set(range(max(0, ncalls - 10), ncalls)) | {rnd.randrange(ncalls) for _ in range(10)})
    live_faults(prop, case, full, idxs, rmode, stats, log)
    syscall_faults(prop, case, full, rmode, stats, log, sample=24)
    stats.count("big_files")
    stats.maximum("max_file_len", n)


def live_faults(prop, case, full, call_indexes, rmode, stats, log):
    for j in call_indexes:
        with disk.SimDisk() as d:
            fobj = d.writer(case["wmode"], case.get("bufsize"), fail_at=j)
            try:
                with warnings.catch_warnings():
                    warnings.simplefilter("ignore")
                    catii_indxio().save(fobj, entries_dict(case), case["common"], U32)
            except BaseException as e:  # noqa: B902
                if isinstance(e, (KeyboardInterrupt, SystemExit, MemoryError)):
                    raise
            fired = fobj.failed
            try:
                fobj._f.close()  # the writer goes away; what it still buffered is flushed or lost, both are real
            except Exception:
                pass
            survived = d.content()
            if not fired:
                continue
            stats.count("fault_io_error_during_save")
            if survived == full:
                stats.count("io_error_after_last_byte")
                continue
            _must_reject(prop, survived, "live:%s:call%d" % (case["wmode"], j), rmode, stats, log, len(full), full=full)


def syscall_faults(prop, case, full, rmode, stats, log, sample=None):
    """The device fails at the j-th mutating SYSTEM CALL made around the file object (os.pwrite & co. reached
    through catii.indxio's own `os`), for every j (or a sample).  Worker threads that save() may start are run
    by the scheduler in a seeded random order, so "a later block lands before an earlier one" happens."""
    import random

    from .. import osproxy, sched

    def run(fail_at, seed):
        with disk.SimDisk(backing=BACKING[0]) as d:
            fobj = d.writer("raw")
            osproxy.PROXY.reset(fail_at)
            try:
                with sched.Session({"strategy": "rtc"}, rng=random.Random(seed)):
                    with warnings.catch_warnings():
                        warnings.simplefilter("ignore")
                        catii_indxio().save(fobj, entries_dict(case), case["common"], U32)
            except BaseException as e:  # noqa: B902
                if isinstance(e, (KeyboardInterrupt, SystemExit, MemoryError)):
                    raise
            finally:
                n = osproxy.PROXY.calls
                fired = osproxy.PROXY.dead
                osproxy.PROXY.reset(None)
            try:
                fobj._f.close()
            except Exception:
                pass
            return n, fired, d.content()

    ncalls, _, _ = run(None, 0)
    if not ncalls:
        return
    stats.count("files_whose_save_made_system_calls_around_the_file_object")
    idxs = range(ncalls) if sample is None else sorted(set(list(range(min(ncalls, sample))) + [ncalls - 1]))
    for j in idxs:
        for seed in (j, j + 7919):
            _, fired, survived = run(j, seed)
            if not fired:
                continue
            stats.count("fault_device_failure_at_system_call")
            if survived == full:
                continue
            _must_reject(prop, survived, "syscall:%d:order%d" % (j, seed), rmode, stats, log, len(full))


def c12_execute(case, stats, log, only=None):
    """only: optional {"fault": "crash"|"fulldisk", "k": int, "mode": str} to replay one fault."""
    prop = "C12"
    BACKING[0] = case.get("backing", "memfd")
    if is_big(case):
        return c12_big(case, stats, log)
    rmode = case["rmode"]
    logmode = {"append": "raw", "bufappend": "bufw"}.get(case["wmode"], case["wmode"])
    with disk.SimDisk() as d:
        f = real_save(case, d, log, mode=logmode)
        if not f.append:
            disk.check_log_reproduces(f.ops, d)
        ops = f.ops
        f.close()
        full = d.content()
    n_entries = len(case["entries"])
    mx = max([case["common"]] + [c for k, _ in case["entries"] for c in k])
    regs = refcodec.regions(len(full), n_entries, case["arity"] if n_entries else 0,
                            refcodec.narrowest_word(mx), 4)
    # 1. crash at every byte of every write operation
    if only is None or only["fault"] == "crash":
        for j, m, content in disk.crash_states(ops):
            if content == full:
                continue
            if only is not None and len(content) != only["k"]:
                continue
            stats.count("fault_crash_at_byte")
            stats.count("cut_region_" + refcodec.region_of(len(content), regs, len(full)))
            stats.count("crash_in_%s_level_write" % ops[j][0])
            _must_reject(prop, content, "crash:op%d+%d" % (j, m), rmode, stats, log, len(full), full=full)
    # 2. disk full after k bytes, while the real save runs
    if only is None or only["fault"] == "fulldisk":
        for mode in ("raw", "bufw"):
            for k in range(len(full)):
                if only is not None and (k != only["k"] or mode != only["mode"]):
                    continue
                with disk.SimDisk() as d:
                    raised = None
                    f = None
                    with disk.FullDisk(k):
                        try:
                            f = d.writer(mode, case.get("bufsize"))
                            with warnings.catch_warnings():
                                warnings.simplefilter("ignore")
                                catii_indxio().save(f, entries_dict(case), case["common"], U32)
                        except Exception as e:
                            raised = type(e).__name__
                        # the writer process goes away while the disk is still full
                        try:
                            if f is not None:
                                f.close()
                        except Exception:
                            pass
                    survived = d.content()
                stats.count("fault_disk_full")
                stats.count("disk_full_save_raised" if raised else "disk_full_save_returned_normally")
                log.add("fulldisk", mode, k, raised, len(survived))
                if len(survived) > k:
                    raise core.HarnessError("RLIMIT_FSIZE=%d left %d bytes" % (k, len(survived)))
                if survived == full:
                    raise core.HarnessError("full-disk run produced the complete file")
                _must_reject(prop, survived, "fulldisk:%s:%d" % (mode, k), rmode, stats, log, len(full))
    # 4. the device fails (EIO) at the j-th call on the file object WHILE the real save runs, for every j:
    #    whatever save did around the file object (pre-allocation, truncation, rewriting) is on the disk too
    if only is None or only["fault"] == "live":
        live_faults(prop, case, full, range(len(f.calls)), rmode, stats, log)
        syscall_faults(prop, case, full, rmode, stats, log)
    # 3. the file is torn IN PLACE (same inode) after this very process loaded the complete copy and
    #    still holds what it loaded: "rewrite in place, crash" with a long-running reader
    if (only is None or only["fault"] == "inplace") and 16 < len(full) <= 4000:
        with disk.SimDisk(full) as d:
            try:
                held = real_load(d, rmode)
            except Exception:
                held = None
            for k in range(len(full) - 1, -1, -1):  # shrinking truncations of the same file
                os.ftruncate(d.fd, k)
                stats.count("fault_torn_in_place_after_load")
                _must_reject(prop, None, "inplace:truncate:%d" % k, rmode, stats, log, len(full), on_disk=d)
            for k in sorted({len(full) - 1, len(full) - 4, len(full) // 2, 17, 20} & set(range(len(full)))):
                os.ftruncate(d.fd, 0)  # re-save from scratch into the same file, cut after k bytes
                os.pwrite(d.fd, full[:k], 0)
                stats.count("fault_resaved_in_place_and_cut")
                _must_reject(prop, None, "inplace:resave:%d" % k, rmode, stats, log, len(full), on_disk=d)
            del held
    stats.count("files")
    stats.count("file_bytes", len(full))
    stats.maximum("max_file_len", len(full))


def c12_run(base_seed, idx, stats, opts):
    rng = core.rng_for(base_seed, "storage", idx)
    case = pick_case(rng, opts.get("tier", "quick"))
    return run_case("C12", case, stats)


# ------------------------------------------------------------------------------ common

EXECUTORS = {"C10": c10_execute, "C11": c11_execute, "C12": c12_execute}


def files_of(case):
    return case["files"] if case.get("kind") == "multi" else [case]


def execute_all(prop, case, stats, log):
    del HELD[:]
    PREVIOUS_BYTES[0] = None
    for n, one in enumerate(files_of(case)):
        try:
            EXECUTORS[prop](one, stats, log)
        except Violation as v:
            if case.get("kind") == "multi":
                v.message = "file %d of %d in this process: %s" % (n + 1, len(case["files"]), v.message)
            raise
    if case.get("kind") == "multi":
        stats.count("runs_with_several_files_in_one_process")


def run_case(prop, case, stats):
    log = core.EventLog()
    try:
        try:
            execute_all(prop, case, stats, log)
        except SaveRaised as e:
            if prop == "C12":
                stats.count("fault_free_save_raised_not_judged")
                return "save-raised"
            raise Violation(prop, "save-raised:" + type(e.args[0]).__name__, "save",
                            "save of an in-domain input raised %r" % (e.args[0],))
    except Violation as v:
        v.extra["case"] = case
        raise
    except disk.SeamBypassed as e:
        raise core.HarnessError(str(e))
    stats.count("evaluations")
    for one in files_of(case):
        if one["kind"] == "entries":
            if nontrivial(one):
                stats.see("nontrivial_files", case_digest(one))
            stats.see("files", case_digest(one))
            stats.sample({"common": one["common"], "entries": one["entries"][:4], "wmode": one["wmode"]})
        else:
            stats.see("nontrivial_files", core.digest_of(one))
            stats.sample(one)
    return log.hexdigest()


def replay(prop, case):
    stats = core.Stats()
    log = core.EventLog()
    try:
        execute_all(prop, case, stats, log)
    except SaveRaised as e:
        if prop != "C12":
            raise Violation(prop, "save-raised:" + type(e.args[0]).__name__, "save",
                            "save of an in-domain input raised %r" % (e.args[0],))


def _fails_same(prop, case, signature):
    try:
        replay(prop, case)
    except Violation as v:
        return v.signature == signature
    except Exception:
        return False
    return False


def minimise(prop, case, signature):
    """Shrink entries, row ids and magnitudes while the same violation signature persists."""
    if case["kind"] == "multi":
        files = core.ddmin(case["files"], lambda sub: bool(sub) and _fails_same(prop, {"kind": "multi", "files": sub}, signature))
        if len(files) == 1:
            return minimise(prop, files[0], signature)
        out = []
        for i in range(len(files)):
            def fails(one, i=i):
                return _fails_same(prop, {"kind": "multi", "files": out + [one] + files[i + 1:]}, signature)
            small = files[i]
            ents = core.ddmin(small["entries"], lambda sub: fails(dict(small, entries=sub)), max_tests=60)
            out.append(dict(small, entries=ents))
        return {"kind": "multi", "files": out}
    case = expand(case)
    if case["kind"] == "narrow":
        return case
    if case["kind"] != "entries":
        best = dict(case)
        lens = list(best["lengths"])
        lens = core.ddmin(lens, lambda sub: bool(sub) and _fails_same(prop, dict(best, lengths=sub), signature))
        best["lengths"] = lens
        return best
    best = dict(case)
    best.pop("shape", None)
    if not _fails_same(prop, best, signature):
        best = dict(case)

    def with_entries(ents):
        c = dict(best)
        c["entries"] = ents
        return c

    ents = core.ddmin(best["entries"], lambda sub: _fails_same(prop, with_entries(sub), signature))
    best = with_entries(ents)
    # shrink each row-id list, then each value
    for i in range(min(len(best["entries"]), 40)):
        if not core.minimise_time_left():
            break
        k, v = best["entries"][i]
        v2 = core.ddmin(v, lambda sub: _fails_same(
            prop, with_entries(best["entries"][:i] + [[k, sub]] + best["entries"][i + 1:]), signature))
        best = with_entries(best["entries"][:i] + [[k, v2]] + best["entries"][i + 1:])
    for mode_key, simple in (("wmode", "raw"), ("rmode", "raw")):
        c = dict(best)
        c[mode_key] = simple
        if _fails_same(prop, c, signature):
            best = c
    for cand in (0, 1, 255, 256, 65536):
        if cand < best["common"]:
            c = dict(best)
            c["common"] = cand
            if _fails_same(prop, c, signature):
                best = c
                break
    return best


RULES = {
    "C10": "one run = 1-3 files saved and loaded one after the other in one process (30 % of runs hold related files: same "
           "coordinates under another common/word size, the same coordinate bytes re-read under another word size, one "
           "entry more/fewer). Files: seeded entry sets (arity 1-4, 0-8 entries [thorough: up to 24], coordinate and common "
           "magnitudes drawn independently from the four INDX word classes with boundary bias, row-id arrays of length 0-6 "
           "[thorough: up to 40] up to 2^32-1; rarely one array of 255..300000 ids [thorough: 4.3 M], 256..66000 entries, or "
           "a dense small-valued index of 200..70000 rows; contiguous or strided arrays) plus indexes reached by short C06 "
           "histories; each is saved by the real IndxIO.save through a logging file object (raw / BufferedWriter / "
           "BufferedRandom, buffer 1..8192) on a memfd, the disk is cleanly restarted and the real IndxIO.load runs on a "
           "fresh descriptor. distinct = distinct (common, entries) contents; non-trivial = at least one entry with at "
           "least one row id",
    "C11": "same generator as C10; per file: library bytes == independent encoder bytes, independent decoder recovers the "
           "data, library loader recovers the data from the independent encoder's bytes for every admissible (index word, "
           "row-id word) pair (big files: narrowest pair and (8,8) only); plus %d stand-in cases whose row ids total "
           "2^30-8 .. 2*2^32 on a sparse memfd (size word, file length and loaded lengths checked). distinct/non-trivial as "
           "C10 (scale cases count as non-trivial)" % len(SCALE_CASES),
    "C12": "same generator as C10, one file per run; for each small file (<= 600 row ids) the write log of the real save is "
           "reconstructed (Python-level writes and C-level tofile blocks) and EVERY byte-granular crash state is "
           "materialised, restarted and loaded; the real save is re-run with the disk full after k bytes for EVERY "
           "k < len(F) with an unbuffered and a buffered file object; and the complete file is loaded, held, and then the "
           "SAME inode is truncated in place at EVERY k (plus re-saved in place and cut at 5 offsets). Big files (up to "
           "1.2 MB, thorough 17 MB) are torn at ~60 sampled cut points (field boundaries +-1, ends, page and power-of-two "
           "offsets, seeded random) and saved against a full disk at a quarter of them. load must raise each time. "
           "evaluations = files; distinct/non-trivial as C10; exhaustive over cut points per small file, sampled over files",
}
