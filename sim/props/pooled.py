"""C16 -- pooled evaluation is schedule-independent (engine ``sched``).

One run = one cube workload (either type, 3-24 sub-cubes, 1-3 aggregates evaluated together),
one pool size 1..16, one serial reference evaluation on fresh objects, and K pooled evaluations
of identically constructed fresh objects, each under its own seeded schedule.  Every pooled
output must equal the serial output in type, dtype, shape and bits.
"""
import random

from .. import core, cubes, poolrun, sched
from ..core import Violation

PROP = "C16"
K_SCHEDULES = {"quick": 5, "thorough": 10}


def serial_reference(w):
    cube = cubes.build_cube(w)
    cube.parallel = False
    aggs = cubes.build_aggs(w)
    return cubes.evaluate(cube, aggs)


def judge(prop, ref, res, where):
    sess = res.session
    if res.exc is not None:
        if isinstance(res.exc, sched.NoProgress):
            raise Violation(prop, "no-progress", where, "pooled evaluation did not finish: %s" % res.exc)
        if isinstance(res.exc, sched.PoolHang):
            raise Violation(prop, "pool-would-hang", where, str(res.exc))
        raise Violation(prop, "pooled-only-exception:" + type(res.exc).__name__, where,
                        "serial evaluation returned but the pooled one raised %r" % (res.exc,))
    if res.pending:
        raise Violation(prop, "tasks-outlive-calculate", where,
                        "%d submitted task(s) were still pending when calculate returned" % res.pending)
    if cubes.freeze(res.out) != cubes.freeze(ref):
        raise Violation(prop, "pooled-differs-from-serial", where,
                        "first difference: output%s (after %d context switches, %d steps)"
                        % (cubes.first_difference(ref, res.out), sess.switches, sess.steps))


PASTS = ("fresh", "fresh", "fresh", "served-serial", "served-pooled", "interrupted-serial", "interrupted-pooled",
         "served-pooled-then-dims-edited")


def with_past(w, poolsize, past, seed):
    """A cube and aggregate objects that have already been through one call (the property speaks of cubes,
    not of brand-new cube objects): served normally, or interrupted by the caller's callback."""
    from .interrupt import Injector, Interrupt

    if past == "served-pooled-then-dims-edited":
        if w["cube"] != "xcube" or w["N"] < 2:
            past = "served-pooled"
        else:
            # the cube was built and served while the caller's dimension arrays held OTHER data; the caller has since
            # loaded the present data into the same arrays (the array cube keeps the caller's arrays by reference)
            import numpy

            before = dict(w, dims=[dict(d, values=list(reversed(d["values"]))) for d in w["dims"]])
            dims = cubes.build_dims(before)
            cube = cubes.build_cube(before, dims)
            cube, _how = poolrun.engage(before, cube, poolsize)
            aggs = cubes.build_aggs(w)
            poolrun.pooled_eval(before, poolsize, {"strategy": "rtc"}, rng=random.Random(seed), cube=cube, aggs=aggs)
            for arr, d in zip(cube.dims, cubes.build_dims(w)):
                if isinstance(arr, numpy.ndarray) and arr.flags.writeable and arr.shape == d.shape:
                    arr[...] = d
            cube.parallel = True
            return cube, cubes.build_aggs(w)
    cube = cubes.build_cube(w)
    cube, _how = poolrun.engage(w, cube, poolsize)
    aggs = cubes.build_aggs(w)
    if past == "fresh":
        return cube, aggs
    k = cubes.scaffold_size(w)
    r = random.Random(seed)
    inj = Injector(at_counts=[r.randrange(k)], at_items=[r.randrange(k)], exc_cls=Interrupt) if past.startswith("interrupted") else None
    if past.endswith("pooled"):
        poolrun.pooled_eval(w, poolsize, {"strategy": "rtc"}, rng=random.Random(seed), cube=cube, aggs=aggs, check_interrupt=inj)
    else:
        cube.parallel = False
        cube.check_interrupt = inj
        try:
            cubes.evaluate(cube, aggs)
        except Exception:
            pass
    cube.check_interrupt = None
    cube.parallel = True
    return cube, aggs


def execute_one(w, poolsize, spec, ref, stats, log, sched_seed=None, script=None, est=None, past="fresh"):
    rng = random.Random(sched_seed) if script is None else None
    cap = 5_000_000 if not est else max(200_000, 50 * est)
    cube, aggs = with_past(w, poolsize, past, (sched_seed or 0) ^ 0xA57)
    res = poolrun.pooled_eval(w, poolsize, spec, rng=rng, script=script, step_cap=cap, cube=cube, aggs=aggs)
    if stats is not None:
        stats.count("past_" + past)
    sess = res.session
    if stats is not None:
        stats.count("pooled_evaluations")
        if sess.pool_engaged:
            stats.count("pooled_runs_engaged")
        else:
            stats.count("pool_not_engaged")
        stats.count("engaged_via_" + res.how)
        stats.count("strategy_" + spec["strategy"])
        stats.count("poolsize_%02d" % poolsize)
        stats.count("sim_steps", sess.steps)
        stats.count("context_switches", sess.switches)
        stats.count("switches_with_2+_tasks_in_flight", sess.switch_in_flight)
        stats.maximum("max_tasks_in_flight", sess.max_in_flight)
        stats.see("schedules", sess.schedule_digest())
        for pair in sess.switch_pairs:
            stats.see("switch_location_pairs", pair)
        if poolsize == 1:
            stats.count("probe_poolsize_1")
        if poolsize > max(1, -(-cubes.scaffold_size(w) // 1)):
            stats.count("probe_poolsize_gt_tasks")
    if log is not None:
        log.add("sched", spec["strategy"], poolsize, sess.steps, sess.switches, sess.schedule_digest())
    judge(PROP, ref, res, w["cube"] + ".calculate")
    return sess


def run(base_seed, idx, stats, opts):
    rng = core.rng_for(base_seed, "pooled", idx)
    tier = opts.get("tier", "quick")
    w = cubes.gen_workload(rng, 3, 24 if tier == "thorough" else 16, max_rows=24)
    poolsize = rng.choice((1, 2, 2, 3, 4, 4, 8, rng.randint(1, 16)))
    log = core.EventLog()
    cubes.WARNINGS_MODE[0] = w.get("warnings", "ignore")
    try:
        return _run_workload(w, poolsize, rng, tier, stats, log)
    finally:
        cubes.WARNINGS_MODE[0] = "ignore"


def _run_workload(w, poolsize, rng, tier, stats, log):
    try:
        ref = serial_reference(w)
    except Exception:
        stats.count("discarded_unsupported")
        return "discarded"
    if w.get("warnings") == "error":
        stats.count("workloads_run_with_warnings_as_errors")
    log.add_bytes(repr(cubes.freeze(ref)).encode())
    est = None
    for k in range(K_SCHEDULES[tier]):
        sched_seed = rng.getrandbits(48)
        if k == 0:
            spec = {"strategy": "rtc"}
        elif k == 1:
            # the ladder: worker i runs exactly d instructions ahead of worker i+1, one instruction each in turn
            lr = random.Random(sched_seed)
            spec = {"strategy": "lockstep", "q": 1, "ladder": lr.randint(1, 13)}
        else:
            spec = sched.make_spec(random.Random(sched_seed ^ 0x5EED), est or 1000)
        past = "fresh" if k == 0 else random.Random(sched_seed ^ 0x9A57).choice(PASTS)
        try:
            sess = execute_one(w, poolsize, spec, ref, stats, log, sched_seed=sched_seed, est=est, past=past)
        except Violation as v:
            # re-run to capture the explicit schedule (decisions) for the replay file
            v.extra["case"] = capture_case(w, poolsize, spec, sched_seed, est, past)
            raise
        if k == 0:
            est = sess.steps
    stats.count("evaluations")
    stats.count("agg_" + "+".join(sorted(a["f"] for a in w["aggs"])))
    stats.count("cube_" + w["cube"])
    if cubes.scaffold_size(w) >= 3 and w["N"] >= 1:
        stats.see("nontrivial_workloads", core.digest_of(w))
    stats.sample({"cube": w["cube"], "N": w["N"], "dims": [d["shape"] for d in w["dims"]], "ishape": w["ishape"],
                  "aggs": [a["f"] for a in w["aggs"]], "poolsize": poolsize})
    return log.hexdigest()


def capture_case(w, poolsize, spec, sched_seed, est, past="fresh"):
    cap = 5_000_000 if not est else max(200_000, 50 * est)
    cube, aggs = with_past(w, poolsize, past, (sched_seed or 0) ^ 0xA57)
    res = poolrun.pooled_eval(w, poolsize, spec, rng=random.Random(sched_seed), step_cap=cap, cube=cube, aggs=aggs)
    return {"workload": w, "poolsize": poolsize, "spec": spec, "sched_seed": sched_seed, "past": past,
            "step_cap": cap, "decisions": res.session.decisions}


def replay(case):
    w = case["workload"]
    cubes.WARNINGS_MODE[0] = w.get("warnings", "ignore")
    try:
        return _replay(case, w)
    finally:
        cubes.WARNINGS_MODE[0] = "ignore"


def _replay(case, w):
    ref = serial_reference(w)
    cube, aggs = with_past(w, case["poolsize"], case.get("past", "fresh"), (case.get("sched_seed") or 0) ^ 0xA57)
    res = poolrun.pooled_eval(w, case["poolsize"], case["spec"], script=case["decisions"],
                              step_cap=case.get("step_cap", 5_000_000), cube=cube, aggs=aggs)
    judge(PROP, ref, res, w["cube"] + ".calculate")


def _fails_same(case, signature):
    try:
        replay(case)
    except Violation as v:
        return v.signature == signature
    except Exception:
        return False
    return False


def minimise(case, signature):
    best = dict(case)
    if not _fails_same(best, signature):
        return case
    # fewer aggregates
    aggs = core.ddmin(best["workload"]["aggs"],
                      lambda sub: bool(sub) and _fails_same(dict(best, workload=dict(best["workload"], aggs=sub)), signature),
                      max_tests=40)
    best = dict(best, workload=dict(best["workload"], aggs=aggs))
    # smaller pool
    for p in (2, 3, 4):
        if p < best["poolsize"] and _fails_same(dict(best, poolsize=p), signature):
            best = dict(best, poolsize=p)
            break
    # fewer context switches: a removed decision means "keep running the current thread"
    dec = core.ddmin(best["decisions"], lambda sub: _fails_same(dict(best, decisions=sub), signature), max_tests=250)
    best = dict(best, decisions=dec)
    return best


RULE = ("seeded cube workloads (ccube or xcube; 1-3 dimensions of shape (N,), (N,C), (N,C,D) with 3-24 sub-cubes, "
        "N 0-24 rows, extents 1-4 with padded interacting shapes, any common per dimension; 1-3 aggregates evaluated "
        "together out of count/valid_count/sum/mean [+ stddev/quantile/min/max/covariance/corrcoef for xcube] with "
        "NaN-marked or (values, validity) facts, none/scalar/array weights, both missing policies, three report "
        "formats); per workload one serial reference and K pooled evaluations (pool size 1-16) each under its own "
        "seeded schedule, on brand-new objects or (3 in 7) on a cube and aggregates that were already served or "
        "interrupted once, serially or pooled: run-to-completion with random chunk order, uniform switch probability "
        "{0.002,0.01,0.05,0.2,1.0}, PCT with 1-3 priority change points, targeted 1-4 pre-empt/resume pairs, burst (a switch at "
        "every instruction inside one window of 30-1000 steps, often at the very start), lockstep (round-robin, 1-13 "
        "instructions each, after per-thread head starts of 0-60 instructions; one schedule per workload is the 'ladder': "
        "worker i exactly d in 1..13 instructions ahead of worker i+1); "
        "pre-emption points are all bytecode instructions of catii code. evaluations = workloads; distinct "
        "non-trivial = distinct workloads with >= 3 sub-cubes and >= 1 row; distinct schedules are reported separately")
