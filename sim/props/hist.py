"""C06 / C07 / C15 -- operation histories over live iindex slots (engine ``hist``).

One run is one history: up to four live slots, each a real ``iindex`` paired with the dense
NumPy array it must stand for.  Operations are generated one at a time from the seeded PRNG
*looking at the current state* (so arguments stay inside each operation's documented domain),
recorded as explicit JSON, executed on the real index and on the model, and judged after every
step.  Persisting a slot through the simulated disk -- with or without a crash -- is one more
operation.  Replay re-executes the recorded list; an operation whose precondition no longer
holds (after minimisation removed an earlier one) is skipped, never guessed.

The three properties are three verdicts over the same histories.  A check only reports its own
property; when another property's oracle fails the history stops being judged (its state can
no longer be trusted) and the run is counted under ``stopped_by_other_property``.
"""
import warnings

import numpy

from .. import core, disk, model
from ..core import Violation
from ..model import Malformed

U32 = numpy.dtype(numpy.uint32)
MAX_SLOTS = 4
PALETTES = (
    (0, 1, 2, 3, 4),
    (0, 1, 2),
    (1, 2, 3, 5, 8),
    (0, 1, 254, 255, 256),
    (0, 3, 65535, 65536, 7),
    (0, 1, 2, -1, -2),
    (5, -128, -129, 127, 128),
    (7,),
    (0, 1),
    (2, 9, 4, 6, 300),
)
OPS = (
    ("new", 6), ("from_array", 5), ("shift_common", 10), ("append", 12), ("update", 10),
    ("filtered", 8), ("sliced", 6), ("slices1d", 4), ("reindexed", 10), ("collapsed", 9),
    ("copy", 4), ("column_stack", 8), ("set_update", 8), ("observe", 6), ("persist", 5),
    ("new3d", 3),
)


class Other(Exception):
    """Another property's oracle failed: stop judging this history."""


class Slot:
    __slots__ = ("idx", "a")

    def __init__(self, idx, a):
        self.idx = idx
        self.a = a


def iindex_cls():
    from catii import iindex

    return iindex


# ----------------------------------------------------------------------------- helpers


def _arr(values, shape):
    return numpy.array(values, dtype=numpy.int64).reshape(shape)


def _pairs(mapping):
    return [[int(k), int(v)] for k, v in mapping.items()]


def _rand_array(rng, palette, shape, skew=None):
    n = 1
    for s in shape:
        n *= s
    if skew is None and n >= 4 and len(palette) >= 2 and rng.random() < (0.55 if n >= 19 else 0.2):
        # near-tie: the two most frequent values differ by zero, one or two occurrences
        a, b = rng.sample(list(palette), 2)
        rest = rng.choice((0, n // 6, n // 3)) if len(palette) > 2 else 0
        lead = rng.choice((0, 1, 1, 1, 1, 2))
        nb = max(0, (n - rest - lead) // 2)
        na = n - rest - nb
        others = [v for v in palette if v not in (a, b)] or [a]
        vals = [a] * na + [b] * nb + [rng.choice(others) for _ in range(rest)]
        rng.shuffle(vals)
        return numpy.array(vals, dtype=numpy.int64).reshape(shape)
    if skew is None:
        skew = rng.random()
    weights = [skew ** i + 0.02 for i in range(len(palette))]
    vals = rng.choices(palette, weights=weights, k=n) if n else []
    return numpy.array(vals, dtype=numpy.int64).reshape(shape)


def _pick_common(rng, a, palette):
    r = rng.random()
    vals = sorted(set(a.ravel().tolist()))
    if vals and r < 0.5:
        counts = {v: int((a == v).sum()) for v in vals}
        return max(vals, key=lambda v: (counts[v], -v))
    if vals and r < 0.8:
        return rng.choice(vals)
    absent = [v for v in list(palette) + [9, 11, 300] if v not in vals]
    return rng.choice(absent) if absent else (max(vals) + 1 if vals else 0)


class Machine:
    """State + generator + executor + oracles."""

    def __init__(self, prop, stats=None, log=None):
        self.prop = prop
        self.slots = []
        self.stats = stats or core.Stats()
        self.log = log or core.EventLog()
        self.step = 0
        self.pending_c15 = []
        self.big_ok = True
        self.hint = None
        self.last_mask = None
        self.queue = []

    # ------------------------------------------------------------------ violations
    def fail(self, prop, vclass, where, message):
        if prop == self.prop:
            raise Violation(prop, vclass, where, message)
        raise Other("%s %s@%s: %s" % (prop, vclass, where, message))

    # ------------------------------------------------------------------ generation
    def gen_op(self, rng, palette):
        if self.queue:
            return self.queue.pop(0)
        hint, self.hint = self.hint, None
        if hint is not None and hint < len(self.slots) and rng.random() < 0.7:
            # a freshly built near-tie index: let the library choose its common right away
            return {"op": "shift_common", "slot": hint, "to": None}
        if not self.slots:
            kind = rng.choice(("new", "new", "from_array"))
        else:
            kinds, weights = zip(*OPS)
            kind = rng.choices(kinds, weights=weights, k=1)[0]
        g = getattr(self, "gen_" + kind)
        for _ in range(6):
            op = g(rng, palette)
            if op is not None:
                return op
            kind = rng.choice(("new", "shift_common", "copy", "observe"))
            g = getattr(self, "gen_" + kind) if self.slots or kind == "new" else self.gen_new
        return self.gen_new(rng, palette)

    def _dst(self, rng):
        if len(self.slots) < MAX_SLOTS and rng.random() < 0.7:
            return len(self.slots)
        return rng.randrange(len(self.slots)) if self.slots else 0

    def _slot_where(self, rng, pred):
        c = [i for i, s in enumerate(self.slots) if pred(s)]
        return rng.choice(c) if c else None

    def _shape(self, rng, rows=None):
        if rows is None:
            r = rng.random()
            if r < 0.78:
                rows = rng.choice((0, 1, 2, 3, 4, 5, 6, 8))
            elif r < 0.985:
                rows = rng.choice((12, 17, 19, 21, 22, 23, 30, 37, 40, 64, 100, 128, 200, 255, 256, 256))
            elif r < 0.9985 or not self.big_ok:
                rows = rng.choice((257, 300))  # row ids beyond one byte
            else:
                rows = rng.choice((65537, 70000))  # row ids beyond two bytes (rare: costs ~1 s per history)
        if rng.random() < 0.45:
            return (rows,)
        cols = rng.choice((1, 2, 2, 3, 3, 0 if rng.random() < 0.1 else 2))
        if rng.random() < 0.04:
            cols = rng.choice((4, 5, 9))
        if rows <= 8 and rng.random() < 0.01:
            cols = rng.choice((256, 300))  # more columns than one byte counts
        if rows > 1000:
            cols = 1
        return (rows, cols)

    def gen_new(self, rng, palette, shape=None):
        shape = shape or self._shape(rng)
        a = _rand_array(rng, palette, shape)
        dst = self._dst(rng)
        common = _pick_common(rng, a, palette)
        if a.size >= 19:
            vals, counts = numpy.unique(a, return_counts=True)
            top = numpy.sort(counts)[-2:]
            if len(top) == 2 and top[1] - top[0] <= 2:
                if rng.random() < 0.8:
                    common = int(vals[numpy.argmax(counts)])
                self.hint = dst
        op = {"op": "new", "dst": dst, "shape": list(shape), "values": a.ravel().tolist(),
              "common": common, "strided": rng.random() < 0.12}
        if not op["strided"] and rng.random() < 0.15:
            op["entry_kinds"] = [rng.choice(("array", "list", "tuple", "range")) for _ in range(rng.choice((1, 2, 3)))]
        return op

    def gen_new3d(self, rng, palette):
        shape = (rng.choice((0, 1, 2, 3, 4)), rng.choice((1, 2, 3)), rng.choice((1, 2, 3)))
        a = _rand_array(rng, palette, shape)
        return {"op": "new", "dst": self._dst(rng), "shape": list(shape), "values": a.ravel().tolist(),
                "common": _pick_common(rng, a, palette)}

    def gen_from_array(self, rng, palette):
        if rng.random() < 0.12:
            # large and sparse enough for the row-scan construction strategy
            rows = rng.choice((90, 120, 200))
            vals = [0, 1, 2, 3, 4, 5, 6][: rng.choice((5, 6, 7))]
            shape = (rows,) if rng.random() < 0.5 else (rows, 2)
            a = numpy.zeros(shape, dtype=numpy.int64)
            flat = a.reshape(-1)
            for _ in range(rng.choice((1, 2, 3, 4))):
                flat[rng.randrange(flat.size)] = rng.choice(vals[1:])
            for v in vals[1:]:
                if rng.random() < 0.9:
                    flat[rng.randrange(flat.size)] = v
        else:
            shape = self._shape(rng)
            a = _rand_array(rng, palette, shape)
        as_dtype = None
        r = rng.random()
        if r < 0.12:
            # selected / not-selected flags: a boolean array (bincount and == treat it as 0/1), any density
            density = rng.choice((0.15, 0.35, 0.5, 0.65, 0.85))
            a = numpy.array([1 if rng.random() < density else 0 for _ in range(a.size)], dtype=numpy.int64).reshape(a.shape)
            as_dtype = "bool"
        elif r < 0.3 and a.size and 0 <= int(a.min()) and int(a.max()) < 128:
            as_dtype = rng.choice(("int8", "uint8", "int16", "uint16", "int32", "uint32", "uint64"))
        present = sorted(set(a.ravel().tolist()))
        op = {"op": "from_array", "dst": self._dst(rng), "shape": list(a.shape), "values": a.ravel().tolist(),
              "common": None, "counts": rng.random() < 0.3, "mapping": None}
        if as_dtype:
            op["as"] = as_dtype
        r = rng.random()
        if r < 0.25 and present:
            op["common"] = rng.choice(present)
        elif r < 0.35:
            op["common"] = rng.choice([v for v in (9, 11, 300, 0) if v not in present] or [max(present or [0]) + 1])
        if rng.random() < 0.25 and present:
            targets = list(palette) + [0, 1]
            mp = {v: rng.choice(targets) for v in present}
            if op["common"] is not None and op["common"] not in mp:
                mp[op["common"]] = rng.choice(targets)
            op["mapping"] = _pairs(mp)
        if a.size == 0 and op["common"] is None and op["mapping"] is None:
            op["common"] = rng.choice(palette)
        if op["counts"] and op["mapping"] is None and rng.random() < 0.4:
            op["zero_counts"] = [v for v in list(palette) + [9] if v not in present][:2]
        op["twice"] = rng.random() < 0.3
        return op

    def gen_shift_common(self, rng, palette):
        i = self._slot_where(rng, lambda s: s.a.ndim <= 2)
        if i is None:
            return None
        s = self.slots[i]
        r = rng.random()
        present = sorted(set(s.a.ravel().tolist()))
        if r < 0.45:
            to = None
        elif r < 0.8 and present:
            to = rng.choice(present)
        else:
            to = rng.choice(list(palette) + [9, 300])
        return {"op": "shift_common", "slot": i, "to": to}

    def gen_append(self, rng, palette):
        i = self._slot_where(rng, lambda s: s.a.ndim <= 2)
        if i is None:
            return None
        s = self.slots[i]
        others = [j for j, t in enumerate(self.slots) if j != i and t.a.shape[1:] == s.a.shape[1:]]
        if rng.random() < 0.05 and s.a.shape[0] <= 64:
            return {"op": "append", "slot": i, "other": i}  # the operand aliases the receiver
        if others and rng.random() < 0.4:
            return {"op": "append", "slot": i, "other": rng.choice(others)}
        rows = rng.choice((0, 0, 1, 1, 2, 3, 5))
        shape = (rows,) + s.a.shape[1:]
        b = _rand_array(rng, palette, shape)
        r = rng.random()
        present = sorted(set(b.ravel().tolist()))
        if r < 0.35:
            common = s.idx.common
        elif r < 0.7:
            # a common value that has no rows in `other` at all
            absent = [v for v in list(palette) + [9, 11] if v not in present]
            common = rng.choice(absent) if absent else s.idx.common
        else:
            common = _pick_common(rng, b, palette)
        return {"op": "append", "slot": i, "fresh": {"shape": list(shape), "values": b.ravel().tolist(), "common": common}}

    def gen_update(self, rng, palette):
        i = self._slot_where(rng, lambda s: s.a.ndim <= 2 and s.a.size > 0)
        if i is None:
            return None
        s = self.slots[i]
        cells = list(numpy.ndindex(*s.a.shape))
        keys = list(dict.keys(s.idx))
        if keys and rng.random() < 0.25:
            # an existing category gains rows: several cells of its column that hold something else get its value
            key = rng.choice(keys)
            col = tuple(key[1:])
            column = s.a[(slice(None),) + col]
            others = [r for r in range(len(column)) if column[r] != key[0]]
            if len(others) >= 2:
                rows = rng.sample(others, rng.randint(2, min(5, len(others))))
                op = {"op": "update", "slot": i, "cells": [[[r] + list(col), int(key[0])] for r in sorted(rows)],
                      "as_lists": rng.random() < 0.15, "as_strided": rng.random() < 0.4}
                return op
        k = rng.choice((1, 1, 2, 3, len(cells)))
        chosen = rng.sample(cells, min(k, len(cells)))
        out = []
        mode = rng.random()
        for c in chosen:
            r = rng.random()
            if mode < 0.15 or r < 0.3:
                v = s.idx.common
            elif r < 0.7:
                v = rng.choice(palette)
            else:
                v = int(s.a[c])
            out.append([list(c), int(v)])
        op = {"op": "update", "slot": i, "cells": out, "as_lists": rng.random() < 0.15, "as_strided": rng.random() < 0.2}
        if rng.random() < 0.12:
            # an entry with NO rows for some value: degenerate but legal, must change nothing
            op["empty_keys"] = [[int(rng.choice(list(palette) + [9]))] + [rng.randrange(max(1, e)) for e in s.a.shape[1:]]]
        return op

    def gen_filtered(self, rng, palette):
        i = self._slot_where(rng, lambda s: s.a.ndim <= 2)
        if i is None:
            return None
        n = self.slots[i].a.shape[0]
        r = rng.random()
        if r < 0.1:
            mask = [False] * n
        elif r < 0.2:
            mask = [True] * n
        else:
            p = rng.random()
            mask = [rng.random() < p for _ in range(n)]
        if self.last_mask is not None and len(self.last_mask) == n and rng.random() < 0.5:
            # same length as the previous mask: often also the same number of kept rows, different rows
            prev = self.last_mask.tolist()
            if rng.random() < 0.6:
                mask = prev[:]
                rng.shuffle(mask)
            return {"op": "filtered", "slot": i, "mask": mask, "dst": self._dst(rng), "reuse_mask_object": True}
        return {"op": "filtered", "slot": i, "mask": mask, "dst": self._dst(rng),
                "mask_layout": rng.choice(("plain", "plain", "strided", "readonly"))}

    def gen_sliced(self, rng, palette):
        if rng.random() < 0.08:
            j = self._slot_where(rng, lambda s: s.a.ndim == 1)
            if j is not None:
                return {"op": "sliced", "slot": j, "orders": [], "dst": j}
        i = self._slot_where(rng, lambda s: s.a.ndim >= 2)
        if i is None:
            return None
        s = self.slots[i]
        orders = []
        for extent in s.a.shape[1:]:
            r = rng.random()
            if r < 0.3 and extent > 0:
                orders.append(rng.randrange(extent))
            elif r < 0.75:
                k = rng.randint(0 if rng.random() < 0.1 else 1, extent) if extent else 0
                order = rng.sample(range(extent), k)
                if order and rng.random() < 0.1:
                    order.insert(rng.randrange(len(order) + 1), rng.choice(order))  # one id named twice
                orders.append(order)
            else:
                orders.append(None)
        return {"op": "sliced", "slot": i, "orders": orders, "dst": self._dst(rng)}

    def gen_slices1d(self, rng, palette):
        i = self._slot_where(rng, lambda s: True)
        if i is None:
            return None
        op = {"op": "slices1d", "slot": i}
        if rng.random() < 0.5:
            op["keep"] = rng.randrange(12)
            op["keep2"] = rng.randrange(12) if rng.random() < 0.6 else None
            op["dst"] = self._dst(rng)
        return op

    def gen_reindexed(self, rng, palette):
        i = self._slot_where(rng, lambda s: s.a.ndim <= 2)
        if i is None:
            return None
        s = self.slots[i]
        listed = sorted({k[0] for k in dict.keys(s.idx)})
        present = sorted(set(s.a.ravel().tolist()) | {s.idx.common})
        r = rng.random()
        if r < 0.2:
            mapping = None
        else:
            targets = list(palette) + [s.idx.common, 0, 1, 2]
            domain = present if rng.random() < 0.5 else [v for v in present if rng.random() < 0.6]
            style = rng.random()
            mp = {}
            if style < 0.3 and domain:
                perm = domain[:]
                rng.shuffle(perm)
                mp = dict(zip(domain, perm))
            elif style < 0.5:
                t = rng.choice(targets)
                mp = {v: t for v in domain}
            elif style < 0.7:
                mp = {v: (s.idx.common if rng.random() < 0.5 else rng.choice(targets)) for v in domain}
            else:
                mp = {v: rng.choice(targets) for v in domain}
            if rng.random() < 0.2:
                mp[777] = 3  # a key that occurs nowhere
            mapping = _pairs(mp)
        del listed
        return {"op": "reindexed", "slot": i, "mapping": mapping, "mapping_kind": rng.choice(model.MAPPING_KINDS),
                "copy": rng.random() < 0.6,
                "shift": rng.random() < 0.75, "assume_unique": rng.random() < 0.3, "dst": self._dst(rng)}

    def gen_collapsed(self, rng, palette):
        i = self._slot_where(rng, lambda s: s.a.ndim == 2)
        if i is None:
            return None
        s = self.slots[i]
        pool = sorted(set(s.a.ravel().tolist()) | {s.idx.common} | set(palette[:3]) | ({-1} if rng.random() < 0.25 else set()))
        k = rng.randint(1, len(pool))
        prec = rng.sample(pool, k)
        r = rng.random()
        if s.idx.common in prec:
            prec.remove(s.idx.common)
        # place the common value first / in the middle / last / nowhere
        if r < 0.25:
            prec.insert(0, s.idx.common)
        elif r < 0.5 and prec:
            prec.insert(rng.randint(1, len(prec)) if len(prec) > 1 else 1, s.idx.common)
        elif r < 0.7:
            prec.append(s.idx.common)
        if not prec:
            prec = [s.idx.common]
        return {"op": "collapsed", "slot": i, "precedence": [int(p) for p in prec], "dst": self._dst(rng),
                "as_tuple": rng.random() < 0.2}

    def gen_copy(self, rng, palette):
        i = self._slot_where(rng, lambda s: s.a.ndim <= 2)
        return None if i is None else {"op": "copy", "slot": i, "dst": self._dst(rng)}

    def gen_column_stack(self, rng, palette):
        i = self._slot_where(rng, lambda s: s.a.ndim <= 2)
        if i is None:
            return None
        n = self.slots[i].a.shape[0]
        same = [j for j, t in enumerate(self.slots) if t.a.ndim <= 2 and t.a.shape[0] == n]
        k = rng.choice((1, 2, 2, 3))
        parts = []
        for _ in range(k):
            if rng.random() < 0.6:
                parts.append({"slot": rng.choice(same)})
            else:
                shape = (n,) if rng.random() < 0.5 else (n, rng.choice((1, 2)))
                b = _rand_array(rng, palette, shape)
                parts.append({"fresh": {"shape": list(shape), "values": b.ravel().tolist(),
                                        "common": _pick_common(rng, b, palette)}})
        r = rng.random()
        new_common = None if r < 0.5 else rng.choice(list(palette) + [9])
        return {"op": "column_stack", "parts": parts, "new_common": new_common, "copy": rng.random() < 0.5,
                "dst": self._dst(rng)}

    def gen_set_update(self, rng, palette):
        i = self._slot_where(rng, lambda s: s.a.ndim <= 2 and s.a.size > 0)
        if i is None:
            return None
        s = self.slots[i]
        which = rng.choice(("union", "intersection", "difference"))
        ent = {}
        if which == "union":
            # only cells that currently hold the common value may gain a listed value
            cells = [c for c in numpy.ndindex(*s.a.shape) if s.a[c] == s.idx.common]
            vals = [v for v in list(palette) + [9] if v != s.idx.common]
            if not vals:
                return None
            for c in rng.sample(cells, min(len(cells), rng.choice((0, 1, 2, 3)))):
                ent.setdefault((rng.choice(vals),) + c[1:], []).append(c[0])
            if rng.random() < 0.15:
                ent.setdefault((rng.choice(vals),) + tuple(rng.randrange(max(1, e)) for e in s.a.shape[1:]), [])
            for k in dict.keys(s.idx):  # plus some rows that are already there
                if rng.random() < 0.3:
                    have = dict.__getitem__(s.idx, k).tolist()
                    ent.setdefault(k, []).extend(rng.sample(have, rng.randint(0, len(have))))
        else:
            for k in dict.keys(s.idx):
                if rng.random() < 0.7:
                    have = dict.__getitem__(s.idx, k).tolist()
                    extra = [r for r in range(s.a.shape[0]) if rng.random() < 0.2]
                    ent[k] = sorted(set(rng.sample(have, rng.randint(0, len(have))) + extra))
            if rng.random() < 0.3:
                ent[(rng.choice(palette),) + tuple(0 for _ in s.a.shape[1:])] = [r for r in range(s.a.shape[0]) if rng.random() < 0.5]
        entries = [[list(k), sorted(set(v))] for k, v in ent.items()]
        return {"op": "set_update", "which": which, "slot": i, "entries": entries, "as_index": rng.random() < 0.3,
                "as_lists": rng.random() < 0.2, "as_strided": rng.random() < 0.25, "scrub": rng.random() < 0.35}

    def gen_observe(self, rng, palette):
        i = self._slot_where(rng, lambda s: s.a.ndim <= 2)
        if i is None:
            return None
        s = self.slots[i]
        if rng.random() < 0.5 and s.a.size:
            # observe, then swap one listed cell and one common cell of a column (same keys, same counts), observe again
            cols = [()] if s.a.ndim == 1 else [(j,) for j in range(s.a.shape[1])]
            rng.shuffle(cols)
            for col in cols:
                column = s.a[(slice(None),) + col]
                listed = [r for r in range(len(column)) if column[r] != s.idx.common]
                common = [r for r in range(len(column)) if column[r] == s.idx.common]
                if listed and common:
                    r1, r2 = rng.choice(listed), rng.choice(common)
                    v = int(column[r1])
                    self.queue = [{"op": "update", "slot": i, "as_lists": False,
                                   "cells": [[[r1] + list(col), int(s.idx.common)], [[r2] + list(col), v]]},
                                  {"op": "observe", "slot": i}]
                    break
        return {"op": "observe", "slot": i}

    def gen_persist(self, rng, palette):
        i = self._slot_where(rng, lambda s: s.a.ndim <= 3 and s.idx.common >= 0 and (s.a.size == 0 or s.a.min() >= 0))
        if i is None:
            return None
        op = {"op": "persist", "slot": i, "dst": self._dst(rng), "wmode": rng.choice(disk.WRITER_MODES),
              "rmode": rng.choice(disk.READER_MODES), "crash": None}
        if rng.random() < 0.4:
            op["crash"] = rng.random()  # fraction of the file that survives
        elif rng.random() < 0.45:
            op.update(writer="other-tool", index_word=rng.choice((1, 1, 2, 4, 8)), rowid_word=rng.choice((1, 1, 2, 4, 8)))
        elif rng.random() < 0.4:
            op["writer"] = "library-narrow"
        return op

    # ------------------------------------------------------------------ execution
    def put(self, dst, idx, a):
        if dst >= len(self.slots):
            self.slots.append(Slot(idx, a))
        else:
            self.slots[dst] = Slot(idx, a)

    def build(self, spec):
        a = _arr(spec["values"], spec["shape"])
        entries = model.entries_of(a, spec["common"])
        if spec.get("strided"):
            entries = model.strided(entries)
            self.stats.count("probe_strided_rowid_arrays")
        kinds = spec.get("entry_kinds")
        if kinds:
            # the constructor documents that row ids may be given as plain sequences and are converted
            conv = {"list": lambda v: v.tolist(), "tuple": lambda v: tuple(v.tolist()), "array": lambda v: v,
                    "range": lambda v: (range(int(v[0]), int(v[-1]) + 1) if len(v) and int(v[-1]) - int(v[0]) + 1 == len(v) else v.tolist())}
            entries = {k: conv[kinds[i % len(kinds)]](v) for i, (k, v) in enumerate(entries.items())}
            self.stats.count("probe_constructor_given_sequences")
        return iindex_cls()(entries, spec["common"], tuple(spec["shape"])), a

    def guard(self, cond):
        if not cond:
            raise Skip()

    def call(self, where, fn, *a, **kw):
        """Run a library operation inside its documented domain: raising is a C06 violation."""
        try:
            with warnings.catch_warnings():
                warnings.simplefilter("ignore")
                return fn(*a, **kw)
        except Exception as e:
            self.fail("C06", "raised:" + type(e).__name__, where, "%s raised %r" % (where, e))

    def execute(self, op):
        self.step += 1
        kind = op["op"]
        try:
            getattr(self, "do_" + kind)(op)
        except Skip:
            self.stats.count("skipped_ops")
            return False
        self.stats.count("op_" + kind)
        self.log.add(self.step, kind)
        self.judge_all(kind)
        return True

    # -- individual operations ------------------------------------------------------
    def do_new(self, op):
        idx, a = self.build(op)
        self.put(op["dst"], idx, a)

    def do_from_array(self, op):
        a = _arr(op["values"], op["shape"])
        if op.get("as"):
            a = a.astype(op["as"])  # same values in another element type
            self.stats.count("from_array_dtype_" + op["as"])
        kw = {}
        if op["common"] is not None:
            kw["common"] = op["common"]
        mapping = dict(map(tuple, op["mapping"])) if op["mapping"] is not None else None
        if mapping is not None:
            kw["mapping"] = mapping
        if op["counts"]:
            # the frequency table is keyed by plain ints whatever the element type (what bincount gives); a table
            # keyed by Python bools is outside the explored domain, see DESIGN.md section 10, observation O1
            vals, cnts = numpy.unique(a.astype(numpy.int64), return_counts=True)
            kw["counts"] = dict(zip(vals.tolist(), cnts.tolist()))
            for extra in op.get("zero_counts", ()):
                # a frequency table may also name categories that happen not to occur
                kw["counts"].setdefault(extra, 0)
                self.stats.count("probe_from_array_counts_name_absent_value")
        try:
            with warnings.catch_warnings():
                warnings.simplefilter("ignore")
                idx = iindex_cls().from_array(a, **kw)
        except Exception:
            # content and failures of from_array belong to C01, which this engine does not judge
            self.stats.count("from_array_raised_not_judged")
            raise Skip()
        try:
            dense = model.decode(idx)
        except Malformed as m:
            self.fail("C07", m.vclass, "from_array", str(m))
        self.put(op["dst"], idx, dense)  # the model ADOPTS what from_array built
        if op.get("twice"):
            # the same call again with the very same argument objects (e.g. to build the twin to compare with)
            try:
                with warnings.catch_warnings():
                    warnings.simplefilter("ignore")
                    again = iindex_cls().from_array(a, **kw)
            except Exception as e:
                self.fail("C15", "second-identical-call-raised:" + type(e).__name__, "from_array", repr(e))
            self.stats.count("probe_from_array_called_twice_with_same_objects")
            try:
                same = (again == idx) and not (again != idx)
            except Exception as e:
                self.fail("C15", "eq-raises:" + type(e).__name__, "from_array", repr(e))
            if not same:
                self.fail("C15", "eq-not-canonical", "from_array",
                          "two identical from_array calls with the same argument objects give unequal indexes: %r vs %r" % (idx, again))
        strategy = "rowscan" if (a.size and len(set(a.ravel().tolist())) >= 5) else "where"
        self.stats.count("from_array_" + strategy + "_candidate")
        if op["common"] is None:
            if not model.most_frequent_ok(dense, idx.common):
                self.fail("C15", "common-not-most-frequent", "from_array",
                          "chose common %r for %r" % (idx.common, dense.tolist()))
            self.stats.count("c15_library_chosen_common_checked")

    def do_shift_common(self, op):
        s = self.slot(op["slot"], maxdim=2)
        before = s.idx.common
        if op["to"] is None:
            self.call("shift_common()", s.idx.shift_common)
            self.check_most_frequent(s, "shift_common()")
            if s.idx.common != before:
                self.stats.count("probe_shift_common_changed_common")
        else:
            self.call("shift_common(v)", s.idx.shift_common, op["to"])
            if s.idx.common != op["to"]:
                self.fail("C06", "common-not-set", "shift_common(v)", "asked %r got %r" % (op["to"], s.idx.common))
            self.stats.count("probe_shift_to_present" if (s.a == op["to"]).any() else "probe_shift_to_absent")

    def do_append(self, op):
        s = self.slot(op["slot"], maxdim=2)
        alias = False
        if "other" in op:
            self.guard(op["other"] < len(self.slots))
            o = self.slots[op["other"]]
            oidx, oa = o.idx, o.a
            alias = op["other"] == op["slot"]
        else:
            oidx, oa = self.build(op["fresh"])
        self.guard(oa.ndim == s.a.ndim and oa.shape[1:] == s.a.shape[1:])
        if alias:
            # x.append(x): NumPy's concatenate([a, a]); there is no non-receiver operand to protect
            self.stats.count("probe_append_operand_aliases_receiver")
            self.call("append", s.idx.append, oidx)
            s.a = numpy.concatenate([oa, oa], axis=0)
            self.check_most_frequent(s, "append")
            return
        snap = model.snapshot(oidx)
        if oa.shape[0] == 0:
            self.stats.count("probe_append_empty_operand")
        if not (oa == oidx.common).any():
            self.stats.count("probe_append_operand_common_has_no_rows")
        self.stats.count("probe_append_same_common" if oidx.common == s.idx.common else "probe_append_different_common")
        self.call("append", s.idx.append, oidx)
        s.a = numpy.concatenate([s.a, oa], axis=0)
        self.unchanged(oidx, snap, "append")
        self.check_most_frequent(s, "append")

    def do_update(self, op):
        s = self.slot(op["slot"], maxdim=2)
        cells = [(tuple(c), v) for c, v in op["cells"]]
        self.guard(cells and len({c for c, _ in cells}) == len(cells))
        for c, _ in cells:
            self.guard(len(c) == s.a.ndim and all(0 <= x < e for x, e in zip(c, s.a.shape)))
        ent = {}
        for c, v in cells:
            ent.setdefault((v,) + c[1:], []).append(c[0])
        for k in op.get("empty_keys", ()):
            k = tuple(k)
            self.guard(len(k) == s.a.ndim and all(0 <= x < e for x, e in zip(k[1:], s.a.shape[1:])))
            if k not in ent:
                ent[k] = []
                self.stats.count("probe_update_with_empty_entry")
        if op.get("as_lists"):
            entries = {k: sorted(r) for k, r in ent.items()}  # plain lists of ints instead of uint32 arrays
            self.stats.count("probe_operand_given_as_lists")
        else:
            entries = {k: numpy.array(sorted(r), dtype=U32) for k, r in ent.items()}
            if op.get("as_strided"):
                entries = model.strided(entries)  # non-contiguous views, neighbours hold other numbers
                self.stats.count("probe_operand_given_as_strided_views")
        snap = model.snapshot(entries)
        if any(v == s.idx.common for _, v in cells):
            self.stats.count("probe_update_writes_common")
        before_keys = set(model.entries_of(s.a, s.idx.common))
        self.call("update", s.idx.update, entries)
        for c, v in cells:
            s.a[c] = v
        if before_keys - set(model.entries_of(s.a, s.idx.common)):
            self.stats.count("probe_update_deleted_whole_entry")
        self.unchanged(entries, snap, "update")

    def do_filtered(self, op):
        s = self.slot(op["slot"], maxdim=2)
        self.guard(len(op["mask"]) == s.a.shape[0])
        mask = numpy.array(op["mask"], dtype=bool)
        layout = op.get("mask_layout")
        if op.get("reuse_mask_object") and self.last_mask is not None and len(self.last_mask) == len(mask):
            # the caller keeps ONE mask array and refills it in place between calls
            self.last_mask[:] = mask
            mask = self.last_mask
            layout = None
            self.stats.count("probe_filtered_with_refilled_mask_object")
        elif layout == "strided":
            big = numpy.ones(len(mask) * 2, dtype=bool)
            big[::2] = mask
            mask = big[::2]
        elif layout == "readonly":
            mask.setflags(write=False)
        snap_src, snap_mask = model.snapshot(s.idx), model.snapshot(mask)
        out = self.call("filtered", s.idx.filtered, mask, int(mask.sum()))
        self.unchanged(s.idx, snap_src, "filtered")
        self.unchanged(mask, snap_mask, "filtered")
        new = Slot(out, s.a[mask])
        self.put(op["dst"], out, new.a)
        self.check_most_frequent(new, "filtered")
        if mask.flags.writeable and mask.flags.c_contiguous:
            self.last_mask = mask

    def do_sliced(self, op):
        if op["orders"] == []:
            # no higher axis to address: the documented result is the index itself, unchanged
            s = self.slot(op["slot"], maxdim=1)
            snap = model.snapshot(s.idx)
            out = self.call("sliced", s.idx.sliced)
            self.unchanged(s.idx, snap, "sliced")
            dense = model.decode(out)
            if dense.shape != s.a.shape or not numpy.array_equal(dense, s.a):
                self.fail("C06", "dense-mismatch", "sliced", "sliced() of a 1-D index is %r, model %r" % (dense.tolist(), s.a.tolist()))
            return
        s = self.slot(op["slot"], mindim=2, maxdim=3)
        orders = op["orders"]
        self.guard(len(orders) == s.a.ndim - 1)
        if any(isinstance(o, list) and len(set(o)) != len(o) for o in orders):
            # an order list naming a slice twice: what the result should CONTAIN is not stated anywhere (the pinned
            # code leaves the repeat empty), so content is not judged - but the result must still be well-formed
            for o, extent in zip(orders, s.a.shape[1:]):
                self.guard(o is None or (isinstance(o, int) and 0 <= o < extent) or
                           (isinstance(o, list) and all(0 <= x < extent for x in o)))
            snap = model.snapshot(s.idx)
            try:
                with warnings.catch_warnings():
                    warnings.simplefilter("ignore")
                    out = s.idx.sliced(*[list(o) if isinstance(o, list) else o for o in orders])
            except Exception:
                self.stats.count("sliced_with_repeats_raised_not_judged")
                raise Skip()
            self.unchanged(s.idx, snap, "sliced")
            try:
                dense = model.decode(out)
            except Malformed as m:
                self.fail("C07", m.vclass, "sliced(repeated ids)", str(m))
            self.stats.count("probe_sliced_with_repeated_ids")
            self.put(op["dst"], out, dense)  # the model ADOPTS the content
            return
        sel = [slice(None)]
        for order, extent in zip(orders, s.a.shape[1:]):
            if order is None:
                sel.append(slice(None))
            elif isinstance(order, int):
                self.guard(0 <= order < extent)
                sel.append(order)
            else:
                self.guard(len(set(order)) == len(order) and all(0 <= o < extent for o in order))
                sel.append(list(order))
        snap = model.snapshot(s.idx)
        args = [list(o) if isinstance(o, list) else o for o in orders]
        out = self.call("sliced", s.idx.sliced, *args)
        self.unchanged(s.idx, snap, "sliced")
        # apply one axis at a time (NumPy would broadcast two index lists together)
        want = s.a
        axis = 1
        for x in sel[1:]:
            if isinstance(x, slice):
                axis += 1
            elif isinstance(x, int):
                want = numpy.take(want, x, axis=axis)
            else:
                want = numpy.take(want, numpy.array(x, dtype=numpy.int64), axis=axis)
                axis += 1
        if s.a.ndim == 3:
            self.stats.count("probe_sliced_3d")
        self.put(op["dst"], out, want.copy())

    def do_slices1d(self, op):
        s = self.slot(op["slot"])
        snap = model.snapshot(s.idx)
        got = self.call("slices1d", lambda: list(s.idx.slices1d()))
        self.unchanged(s.idx, snap, "slices1d")
        want = list(numpy.ndindex(*s.a.shape[1:]))
        labels = [c for c, _ in got]
        if sorted(labels) != sorted(want):
            self.fail("C06", "slices1d-labels", "slices1d", "yielded %r, expected each of %r once" % (labels, want))
        for c, sub in got:
            try:
                dense = model.decode(sub)
            except Malformed as m:
                self.fail("C07", m.vclass, "slices1d", str(m))
            col = s.a[(slice(None),) + tuple(c)]
            if dense.shape != col.shape or not numpy.array_equal(dense, col):
                self.fail("C06", "dense-mismatch", "slices1d",
                          "slice labelled %r is %r, dense column is %r" % (c, dense.tolist(), col.tolist()))
            try:
                model.well_formed(sub)
            except Malformed as m:
                self.fail("C07", m.vclass, "slices1d", str(m))
        if s.a.ndim == 3:
            self.stats.count("probe_slices1d_3d")
        # a yielded slice may be kept and used (mutated, appended to ...) as an index of its own: it shares its
        # row-id arrays with the parent, and neither may be affected by what happens to the other
        keep = op.get("keep")
        if keep is not None and s.a.ndim >= 2 and got:
            picks = [keep % len(got)]
            if len(got) > 1 and op.get("keep2") is not None:
                second = op["keep2"] % len(got)
                if second != picks[0]:
                    picks.append(second)
            parent = s.a
            for n_, which in enumerate(picks):
                c, sub = got[which]
                dst = op.get("dst", len(self.slots)) if n_ == 0 else len(self.slots)
                if dst >= MAX_SLOTS and n_ > 0:
                    dst = (op.get("dst", 0) + 1) % MAX_SLOTS
                self.put(dst, sub, parent[(slice(None),) + tuple(c)].copy())
                self.stats.count("probe_slice_from_slices1d_kept_as_index")

    def do_reindexed(self, op):
        s = self.slot(op["slot"], maxdim=2)
        snap = model.snapshot(s.idx)
        if op["mapping"] is None:
            listed = sorted({k[0] for k in dict.keys(s.idx)})
            eff = {v: i for i, v in enumerate(listed)}
            mapping = None
            self.stats.count("probe_reindexed_default_mapping")
        else:
            mapping = model.make_mapping(op["mapping"], op.get("mapping_kind", "dict"))
            eff = dict(mapping)
            if op.get("mapping_kind", "dict") != "dict":
                self.stats.count("probe_mapping_kind_" + op["mapping_kind"])
        msnap = model.snapshot(mapping) if mapping is not None else None
        out = self.call("reindexed", s.idx.reindexed, mapping, copy=op["copy"], shift=op["shift"],
                        assume_unique=op["assume_unique"])
        self.unchanged(s.idx, snap, "reindexed")
        if mapping is not None:
            self.unchanged(mapping, msnap, "reindexed")
            present = set(s.a.ravel().tolist())
            if any(k not in eff for k in present | {s.idx.common}):
                self.stats.count("probe_reindexed_partial_mapping")
            tg = [eff.get(v, v) for v in present]
            if len(set(tg)) < len(tg):
                self.stats.count("probe_reindexed_merges_values")
            if any(eff.get(v, v) == eff.get(s.idx.common, s.idx.common) for v in present if v != s.idx.common):
                self.stats.count("probe_reindexed_onto_common")
        want = numpy.vectorize(lambda v: eff.get(v, v), otypes=[numpy.int64])(s.a) if s.a.size else s.a.copy()
        if op["copy"] and model.shares_storage(out, s.idx):
            self.fail("C06", "copy-shares-storage", "reindexed(copy=True)", "result shares row-id storage with its source")
        self.put(op["dst"], out, want)
        # C15: when values were actually merged and shift=True, the library re-chooses the common value itself
        # (the library re-chooses only when row-id sets were combined: two entries landing on the same
        #  coordinate, or an entry landing on the common value - not when values merely meet in different columns)
        new_keys = [(eff.get(k[0], k[0]),) + tuple(k[1:]) for k in dict.keys(s.idx)]
        new_common = eff.get(s.idx.common, s.idx.common)
        really_merged = len(set(new_keys)) < len(new_keys) or any(k[0] == new_common for k in new_keys)
        if op["shift"] and really_merged and s.a.size:
            self.stats.count("probe_reindexed_merge_renormalised")
            self.check_most_frequent(self.slots[min(op["dst"], len(self.slots) - 1)], "reindexed")

    def do_collapsed(self, op):
        s = self.slot(op["slot"], mindim=2, maxdim=2)
        prec = list(op["precedence"])
        self.guard(prec and len(set(prec)) == len(prec))
        snap = model.snapshot(s.idx)
        if op.get("as_tuple"):
            prec = tuple(prec)
        psnap = model.snapshot(prec)
        out = self.call("collapsed", s.idx.collapsed, prec)
        prec = list(prec)
        self.unchanged(s.idx, snap, "collapsed")
        self.unchanged(tuple(prec) if op.get("as_tuple") else prec, psnap, "collapsed")
        want = numpy.empty(s.a.shape[0], dtype=numpy.int64)
        for r in range(s.a.shape[0]):
            row = set(s.a[r].tolist())
            want[r] = next((p for p in prec if p in row), prec[-1])
        c = s.idx.common
        pos = prec.index(c) if c in prec else None
        self.stats.count("probe_collapsed_common_" + (
            "absent" if pos is None else "last" if pos == len(prec) - 1 else "first" if pos == 0 else "middle"))
        if any(p < 0 for p in prec):
            self.stats.count("probe_collapsed_negative_precedence")
        if any(v not in prec for v in set(s.a.ravel().tolist())):
            self.stats.count("probe_collapsed_omits_present_value")
        new = Slot(out, want)
        self.put(op["dst"], out, want)
        if s.a.shape[0]:
            self.check_most_frequent(new, "collapsed")

    def do_copy(self, op):
        s = self.slot(op["slot"], maxdim=2)
        snap = model.snapshot(s.idx)
        out = self.call("copy", s.idx.copy)
        self.unchanged(s.idx, snap, "copy")
        if model.shares_storage(out, s.idx):
            self.fail("C06", "copy-shares-storage", "copy", "copy() shares row-id storage with its source")
        if out.common != s.idx.common:
            self.fail("C06", "common-changed", "copy", "%r -> %r" % (s.idx.common, out.common))
        self.put(op["dst"], out, s.a.copy())

    def do_column_stack(self, op):
        from catii.iindexes import column_stack

        self.guard(op["parts"])
        idxs, arrs = [], []
        for p in op["parts"]:
            if "slot" in p:
                self.guard(p["slot"] < len(self.slots))
                t = self.slots[p["slot"]]
                self.guard(t.a.ndim <= 2)
                idxs.append(t.idx)
                arrs.append(t.a)
            else:
                i, a = self.build(p["fresh"])
                idxs.append(i)
                arrs.append(a)
        self.guard(len({a.shape[0] for a in arrs}) == 1)
        snaps = [model.snapshot(i) for i in idxs]
        out = self.call("column_stack", column_stack, list(idxs), new_common=op["new_common"], copy=op["copy"])
        for i, sn in zip(idxs, snaps):
            self.unchanged(i, sn, "column_stack")
        want = numpy.column_stack(arrs) if arrs[0].shape[0] or True else None
        if op["new_common"] is not None and out.common != op["new_common"]:
            self.fail("C06", "common-not-set", "column_stack", "asked %r got %r" % (op["new_common"], out.common))
        if op["copy"] and any(model.shares_storage(out, i) for i in idxs):
            self.fail("C06", "copy-shares-storage", "column_stack(copy=True)", "result shares storage with an input")
        if len({i.common for i in idxs}) > 1:
            self.stats.count("probe_column_stack_mixed_commons")
        if len({a.ndim for a in arrs}) > 1:
            self.stats.count("probe_column_stack_mixed_ndim")
        self.put(op["dst"], out, want.astype(numpy.int64))

    def do_set_update(self, op):
        s = self.slot(op["slot"], maxdim=2)
        which = op["which"]
        c = s.idx.common
        n = s.a.shape[0]
        ent = {tuple(k): list(v) for k, v in op["entries"]}
        for k, rows in ent.items():
            self.guard(len(k) == s.a.ndim and all(0 <= x < e for x, e in zip(k[1:], s.a.shape[1:])))
            self.guard(all(0 <= r < n for r in rows) and sorted(set(rows)) == rows)
        want = s.a.copy()
        if which == "union":
            claimed = set()
            for k, rows in ent.items():
                self.guard(k[0] != c)
                for r in rows:
                    cell = (r,) + k[1:]
                    # keeps rows exclusive: the cell holds the common value or already this value
                    self.guard(s.a[cell] in (c, k[0]) and (cell not in claimed))
                    claimed.add(cell)
                    want[cell] = k[0]
        elif which == "intersection":
            for key in dict.keys(s.idx):
                keep = set(ent.get(key, []))
                for r in dict.__getitem__(s.idx, key).tolist():
                    if r not in keep:
                        want[(r,) + key[1:]] = c
        else:
            for key in dict.keys(s.idx):
                drop = set(ent.get(key, []))
                for r in dict.__getitem__(s.idx, key).tolist():
                    if r in drop:
                        want[(r,) + key[1:]] = c
        arrays = {k: numpy.array(v, dtype=U32) for k, v in ent.items()}
        if op.get("as_index"):
            operand = iindex_cls()(arrays, c, s.idx.shape)
        elif op.get("as_lists"):
            operand = {k: list(v) for k, v in ent.items()}
            self.stats.count("probe_operand_given_as_lists")
        elif op.get("as_strided"):
            operand = model.strided(arrays)
            self.stats.count("probe_operand_given_as_strided_views")
        else:
            operand = arrays
        snap = model.snapshot(operand)
        fn = getattr(s.idx, which + "_update")
        self.call(which + "_update", fn, operand)
        self.unchanged(operand, snap, which + "_update")
        if op.get("scrub") and operand is arrays:
            # the caller's arrays were a staging buffer: it reuses them for the next batch once the call has returned
            for v in arrays.values():
                v[...] = 0
            self.stats.count("probe_caller_reuses_operand_arrays_after_update")
        s.a = want

    def do_observe(self, op):
        s = self.slot(op["slot"], maxdim=2)
        snap = model.snapshot(s.idx)
        idx, a = s.idx, s.a
        cols = [()] if a.ndim == 1 else [(j,) for j in range(a.shape[1])]
        forced = self.call("to_dict(force=True)", idx.to_dict, True)
        items = self.call("items(force=True)", lambda: [(k, v.tolist()) for k, v in idx.items(force=True)])
        want = {k: v.tolist() for k, v in dict.items(idx)}
        for col in cols:
            want[(idx.common,) + col] = numpy.nonzero(a[(slice(None),) + col] == idx.common)[0].tolist()
        # whether a common value without rows is shown as an empty list or not at all is not stated
        def drop_empty(d):
            return {k: v for k, v in d.items() if v}

        if drop_empty(forced) != drop_empty(want):
            self.fail("C06", "observer-mismatch", "to_dict(force=True)", "%r != %r" % (forced, want))
        if len({k for k, _ in items}) != len(items) or drop_empty(dict(items)) != drop_empty(want):
            self.fail("C06", "observer-mismatch", "items(force=True)", "%r != %r" % (sorted(items), sorted(want.items())))
        values = sorted(set(a.ravel().tolist()) | {idx.common})
        for col in cols:
            column = a[(slice(None),) + col]
            for v in values:
                rows = numpy.nonzero(column == v)[0].tolist()
                got = self.call("get(force=True)", idx.get, (v,) + col, None, True)
                if (got.tolist() if got is not None else None) != (rows or None):
                    self.fail("C06", "observer-mismatch", "get(force=True)",
                              "get(%r) -> %r, rows holding it %r" % ((v,) + col, got, rows))
            cr = self.call("common_rowids", idx.common_rowids, *col)
            if cr.tolist() != numpy.nonzero(column == idx.common)[0].tolist() or cr.dtype != U32:
                self.fail("C06", "observer-mismatch", "common_rowids", "%r" % (cr,))
        self.unchanged(idx, snap, "observers")

    def do_persist(self, op):
        from catii.indxio import IndxIO

        s = self.slot(op["slot"])
        self.guard(s.idx.common >= 0 and (s.a.size == 0 or s.a.min() >= 0))
        # INDX stores unsigned coordinates of one arity; only a well-formed index is persisted
        try:
            model.well_formed(s.idx)
        except Malformed:
            raise Skip()
        snap = model.snapshot(s.idx)
        if op.get("writer") == "other-tool":
            # the file comes from another tool: documented layout, but any admissible word sizes
            from .. import refcodec

            ents = [(k, v.tolist()) for k, v in dict.items(s.idx)]
            biggest = max([s.idx.common] + [c for k, _ in ents for c in k])
            maxrow = max([len(v) for _, v in ents] + [x for _, v in ents for x in v] + [0])
            iw = max(refcodec.narrowest_word(biggest), op.get("index_word", 1))
            rw = max(refcodec.narrowest_word(maxrow), op.get("rowid_word", 1))
            blob = refcodec.encode(ents, s.idx.common, iw, rw)
            self.stats.count("probe_reload_of_file_written_by_other_tool")
            if rw < 4 and sum(len(v) for _, v in ents) >= (1 << (8 * rw)):
                self.stats.count("probe_reload_narrow_rowid_word_many_ids")
            with disk.SimDisk(blob) as d:
                try:
                    entries, common, _ = self._load(d, op["rmode"])
                except Exception:
                    self.stats.count("reload_raised_not_judged")
                    raise Skip()
            out = iindex_cls()(dict(entries), common, s.idx.shape)
            self.put(op["dst"], out, s.a.copy())
            return
        narrow = None
        if op.get("writer") == "library-narrow":
            # the library's own saver, handed the row ids in the narrowest word that holds every row id
            from .. import refcodec

            maxrow = max([int(v[-1]) for v in dict.values(s.idx) if len(v)] + [0])
            narrow = numpy.dtype("u%d" % refcodec.narrowest_word(maxrow))
            self.stats.count("probe_library_save_with_narrow_rowid_word")
        with disk.SimDisk() as d:
            f = d.writer(op["wmode"])
            try:
                with warnings.catch_warnings():
                    warnings.simplefilter("ignore")
                    if narrow is not None and narrow != U32:
                        IndxIO.save(f, {k: v.astype(narrow) for k, v in dict.items(s.idx)}, s.idx.common, narrow)
                    else:
                        IndxIO.save(f, s.idx, s.idx.common, U32)
                f.flush()
            except Exception:
                # save failures belong to C10/C11
                self.stats.count("persist_save_raised_not_judged")
                raise Skip()
            if not f.append:
                disk.check_log_reproduces(f.ops, d)
            f.close()
            self.unchanged(s.idx, snap, "persist")
            full = d.content()
            if op["crash"] is not None:
                k = min(len(full) - 1, int(op["crash"] * len(full)))
                self.stats.count("fault_persist_crash")
                with disk.SimDisk(full[:k]) as d2:
                    try:
                        self._load(d2, op["rmode"])
                    except Exception:
                        self.stats.count("probe_torn_reload_rejected")
                        return  # the slot is untouched
                self.stats.count("torn_reload_returned_not_judged_here")  # C12's business
                return
            try:
                entries, common, _ = self._load(d, op["rmode"])
            except Exception:
                self.stats.count("reload_raised_not_judged")  # C10's business
                raise Skip()
        out = iindex_cls()(dict(entries), common, s.idx.shape)
        self.stats.count("probe_clean_reload")
        self.put(op["dst"], out, s.a.copy())

    def _load(self, d, rmode):
        from catii.indxio import IndxIO

        f = d.restart(rmode)
        try:
            with warnings.catch_warnings():
                warnings.simplefilter("ignore")
                return IndxIO.load(f)
        finally:
            f.close()

    # ------------------------------------------------------------------ oracles
    def slot(self, i, mindim=1, maxdim=3):
        self.guard(isinstance(i, int) and 0 <= i < len(self.slots))
        s = self.slots[i]
        self.guard(mindim <= s.a.ndim <= maxdim)
        return s

    def unchanged(self, obj, snap, where):
        if model.snapshot(obj) != snap:
            self.fail("C06", "operand-mutated", where, "%s changed a non-receiver operand" % where)

    def check_most_frequent(self, s, where):
        # judged in judge_c15 (after the step), so that it cannot mask this step's C06/C07 verdicts
        self.pending_c15.append((s, where))

    def _most_frequent_now(self, s, where):
        self.stats.count("c15_library_chosen_common_checked")
        try:
            dense = model.decode(s.idx)
        except Malformed:
            return
        if not model.most_frequent_ok(dense, s.idx.common):
            vals, counts = numpy.unique(dense, return_counts=True)
            self.fail("C15", "common-not-most-frequent", where,
                      "common %r but value counts are %r" % (s.idx.common, dict(zip(vals.tolist(), counts.tolist()))))

    def judge_all(self, where):
        """Evaluate the three properties' oracles independently: another property's failure must
        not mask this one's (it only ends the history afterwards)."""
        other = None
        for group in (self.judge_c06, self.judge_c07, self.judge_c15):
            try:
                group(where)
            except Other as o:
                other = other or o
        if other is not None:
            raise other

    def judge_c06(self, where):
        # C06: every live slot stands for its model
        for n, s in enumerate(self.slots):
            try:
                dense = model.decode(s.idx)
            except Malformed as m:
                # an index that does not stand for ANY array certainly does not stand for the NumPy result
                self.fail("C06", "undecodable", where, "slot %d stands for no array at all: %s" % (n, m))
            if dense.shape != s.a.shape or not numpy.array_equal(dense, s.a):
                self.fail("C06", "dense-mismatch", where,
                          "slot %d: index stands for %r (common %r), NumPy model says %r"
                          % (n, dense.tolist(), s.idx.common, s.a.tolist()))
            if s.a.ndim <= 2:
                try:
                    ta = s.idx.to_array(dtype=int)
                except Exception as e:
                    self.fail("C06", "raised:" + type(e).__name__, "to_array", "to_array(dtype=int) raised %r" % (e,))
                if ta.shape != s.a.shape or not numpy.array_equal(ta, s.a):
                    self.fail("C06", "dense-mismatch", where + "/to_array",
                              "slot %d: to_array %r, NumPy model says %r" % (n, ta.tolist(), s.a.tolist()))
            # the observers (items / to_dict / get) must show exactly the rows NumPy finds for each
            # value: nothing for a value that occurs nowhere, rows in increasing order
            try:
                shown = {k: v.tolist() for k, v in s.idx.items()}
            except Exception as e:
                self.fail("C06", "raised:" + type(e).__name__, "items", "items() raised %r" % (e,))
            want = {k: v.tolist() for k, v in model.entries_of(s.a, s.idx.common).items()}
            if shown != want:
                diff = sorted(set(shown) ^ set(want)) or sorted(k for k in want if shown[k] != want[k])
                self.fail("C06", "observer-mismatch", where,
                          "slot %d: items()/to_dict() disagree with the dense array at keys %r: shown %r, NumPy finds %r"
                          % (n, diff[:4], {k: shown.get(k) for k in diff[:4]}, {k: want.get(k) for k in diff[:4]}))
            self.log.add(n, s.idx.common, s.a.shape, s.a.tobytes())

    def judge_c07(self, where):
        for n, s in enumerate(self.slots):
            try:
                model.well_formed(s.idx)
            except Malformed as m:
                self.fail("C07", m.vclass, where, "slot %d after %s: %s" % (n, where, m))
        self.kernel_consequence(where)

    def judge_c15(self, where):
        pending, self.pending_c15 = self.pending_c15, []
        for s, w in pending:
            self._most_frequent_now(s, w)
        self.equality_laws(where)

    def kernel_consequence(self, where):
        """Two well-formed 1-D slots over the same rows can always be crossed (C07)."""
        from catii import ccube

        ones = [s for s in self.slots if s.a.ndim == 1 and s.a.size and s.a.min() >= 0 and s.a.max() <= 40
                and 0 <= s.idx.common <= 40]
        for i in range(len(ones)):
            for j in range(i + 1, len(ones)):
                if ones[i].a.shape == ones[j].a.shape:
                    try:
                        with warnings.catch_warnings():
                            warnings.simplefilter("ignore")
                            ccube([ones[i].idx, ones[j].idx]).count()
                    except Exception as e:
                        self.fail("C07", "cube-over-wellformed-raises", where, repr(e))
                    self.stats.count("c07_cube_consequence_checked")
                    return

    def equality_laws(self, where):
        cls = iindex_cls()
        things = [(s.idx, s.a) for s in self.slots]
        for s in list(self.slots):
            things.append((cls(model.entries_of(s.a, s.idx.common), s.idx.common, tuple(int(x) for x in s.a.shape)), s.a))
        # an application subclass of iindex holding the same index is still the same index
        sub_cls = _subclass_of(cls)
        for s in list(self.slots)[:2]:
            things.append((sub_cls(model.entries_of(s.a, s.idx.common), s.idx.common, tuple(int(x) for x in s.a.shape)), s.a))
        # near-twins: the same index with ONE cell changed must compare unequal (in both directions)
        import random as _random

        for s in list(self.slots):
            if s.a.size == 0:
                continue
            r = _random.Random(s.a.tobytes() + repr(s.idx.common).encode())
            values = sorted(set(s.a.ravel().tolist()) | {s.idx.common})
            for _ in range(2):
                b = s.a.copy()
                cell = tuple(r.randrange(e) for e in b.shape)
                others = [v for v in values if v != b[cell]] or [int(b[cell]) + 1]
                b[cell] = r.choice(others)
                things.append((cls(model.entries_of(b, s.idx.common), s.idx.common, tuple(int(x) for x in b.shape)), b))
            self.stats.count("c15_near_twins_compared", 2)
        n = len(things)
        for i in range(n):
            a, da = things[i]
            for j in range(n):
                b, db = things[j]
                same = (a.shape == b.shape and a.common == b.common and da.shape == db.shape
                        and numpy.array_equal(da, db))
                try:
                    eq = a == b
                except Exception as e:
                    self.fail("C15", "eq-raises:" + type(e).__name__, where, "== raised %r" % (e,))
                try:
                    ne = a != b
                except Exception as e:
                    self.fail("C15", "ne-raises:" + type(e).__name__, where, "!= raised %r" % (e,))
                if bool(eq) != same:
                    self.fail("C15", "eq-not-canonical", where,
                              "%r == %r is %r but (shape, common, dense content) %s"
                              % (a, b, eq, "coincide" if same else "differ"))
                if not (ne is (not eq)) and not (bool(ne) == (not bool(eq)) and isinstance(ne, (bool, numpy.bool_))):
                    self.fail("C15", "ne-not-negation", where, "== is %r but != is %r" % (eq, ne))
                self.stats.count("c15_equality_pairs")
        for a, _ in things[: len(self.slots)]:
            for other in (3, {}, None, "x", (1, 2)):
                try:
                    if a == other or not (a != other):
                        self.fail("C15", "eq-nonindex", where, "index == %r" % (other,))
                except Violation:
                    raise
                except Other:
                    raise
                except Exception as e:
                    self.fail("C15", "eq-raises:" + type(e).__name__, where, "comparison with %r raised %r" % (other, e))


class Skip(Exception):
    pass


_SUBCLASSES = {}


def _subclass_of(cls):
    if cls not in _SUBCLASSES:
        _SUBCLASSES[cls] = type("ApplicationIndex", (cls,), {})
    return _SUBCLASSES[cls]


# ----------------------------------------------------------------------------- run / replay


def run_history(prop, rng, stats, tier):
    m = Machine(prop, stats)
    palette = rng.choice(PALETTES)
    n_ops = rng.choice((2, 3, 4, 5, 6, 8, 10, 12)) if tier == "quick" else rng.choice((3, 5, 8, 12, 16, 24))
    history = []
    try:
        for _ in range(n_ops):
            op = m.gen_op(rng, palette)
            history.append(op)
            m.execute(op)
    except Violation as v:
        v.extra["case"] = {"history": history}
        raise
    except Other:
        stats.count("stopped_by_other_property")
    except disk.SeamBypassed as e:
        raise core.HarnessError(str(e))
    stats.count("evaluations")
    stats.count("steps", len(history))
    kinds = tuple(o["op"] for o in history)
    stats.see("op_sequences", core.digest_of(kinds))
    if len(set(kinds)) >= 2 and len(history) >= 2:
        stats.see("nontrivial_histories", core.digest_of(history))
    stats.sample([_brief(o) for o in history[:6]])
    return m.log.hexdigest()


def _brief(op):
    o = dict(op)
    if "values" in o and len(o["values"]) > 24:
        o["values"] = o["values"][:24] + ["..."]
    return o


def replay(prop, case):
    m = Machine(prop)
    try:
        for op in case["history"]:
            m.execute(op)
    except Other:
        pass


def _scripted():
    """A few fixed histories at representation boundaries that random generation reaches too rarely: an entry
    with exactly 2^8 / 2^16 row ids (every id fits the narrow word, the COUNT does not) saved by the library in
    the narrowest row-id word, reloaded, observed and used."""
    out = []
    for rows, cols in ((256, None), (256, 2), (65536, None), (255, None), (257, None)):
        shape = [rows] if cols is None else [rows, cols]
        n = rows * (cols or 1)
        values = [7] * n
        if cols:
            values = [7 if j % cols == 0 else (j // cols) % 3 for j in range(n)]
        for writer in ("library-narrow", "other-tool"):
            out.append([
                {"op": "new", "dst": 0, "shape": shape, "values": values, "common": 0, "strided": False},
                {"op": "persist", "slot": 0, "dst": 1, "wmode": "raw", "rmode": "raw", "crash": None, "writer": writer,
                 "index_word": 1, "rowid_word": 1},
                {"op": "observe", "slot": 1},
                {"op": "shift_common", "slot": 1, "to": None},
                {"op": "copy", "slot": 1, "dst": 2},
            ])
    return out


SCRIPTED = _scripted()


def run_scripted(prop, history, stats):
    m = Machine(prop, stats)
    try:
        for op in history:
            m.execute(dict(op))
    except Violation as v:
        v.extra["case"] = {"history": history}
        raise
    except Other:
        stats.count("stopped_by_other_property")
    stats.count("evaluations")
    stats.count("scripted_histories")
    return m.log.hexdigest()


def make_run(prop):
    def run(base_seed, idx, stats, opts):
        if idx < len(SCRIPTED):
            return run_scripted(prop, SCRIPTED[idx], stats)
        rng = core.rng_for(base_seed, "hist", idx)
        return run_history(prop, rng, stats, opts.get("tier", "quick"))

    run.__name__ = "run_" + prop
    return run


RUNS = {p: make_run(p) for p in ("C06", "C07", "C15")}


def _fails_same(prop, history, signature):
    try:
        replay(prop, {"history": history})
    except Violation as v:
        return v.signature == signature
    except Exception:
        return False
    return False


def minimise(prop, case, signature):
    hist = list(case["history"])
    hist = core.ddmin(hist, lambda sub: _fails_same(prop, sub, signature))
    # shrink array-valued arguments: fewer rows in 'new' / fresh operands
    changed = True
    rounds = 0
    while changed and rounds < 4:
        changed = False
        rounds += 1
        for i, op in enumerate(hist):
            for cand in _smaller_ops(op):
                trial = hist[:i] + [cand] + hist[i + 1:]
                if _fails_same(prop, trial, signature):
                    hist = trial
                    changed = True
                    break
    return {"history": hist}


def _smaller_spec(spec):
    shape = spec["shape"]
    if shape[0] > 0:
        a = _arr(spec["values"], shape)
        for drop in range(shape[0]):
            b = numpy.delete(a, drop, axis=0)
            yield dict(spec, shape=list(b.shape), values=b.ravel().tolist())
        if len(shape) == 2 and shape[1] > 1:
            for drop in range(shape[1]):
                b = numpy.delete(a, drop, axis=1)
                yield dict(spec, shape=list(b.shape), values=b.ravel().tolist())


def _smaller_ops(op):
    kind = op["op"]
    if kind in ("new", "from_array"):
        for s in _smaller_spec(op):
            yield s
    elif kind == "append" and "fresh" in op:
        for s in _smaller_spec(op["fresh"]):
            yield dict(op, fresh=s)
    elif kind == "update" and len(op["cells"]) > 1:
        for i in range(len(op["cells"])):
            yield dict(op, cells=op["cells"][:i] + op["cells"][i + 1:])
    elif kind == "reindexed" and op["mapping"]:
        for i in range(len(op["mapping"])):
            yield dict(op, mapping=op["mapping"][:i] + op["mapping"][i + 1:])
    elif kind == "collapsed" and len(op["precedence"]) > 1:
        for i in range(len(op["precedence"])):
            yield dict(op, precedence=op["precedence"][:i] + op["precedence"][i + 1:])
    elif kind == "column_stack" and len(op["parts"]) > 1:
        for i in range(len(op["parts"])):
            yield dict(op, parts=op["parts"][:i] + op["parts"][i + 1:])


def storage_case_from_history(rng):
    """Used by the disk engine: an index reached by a short history, if INDX can express it."""
    from . import storage

    m = Machine("none")
    palette = rng.choice([p for p in PALETTES if min(p) >= 0])
    try:
        for _ in range(rng.choice((1, 2, 3, 4))):
            op = m.gen_op(rng, palette)
            if op["op"] == "persist":
                continue
            m.execute(op)
    except (Other, Violation):
        pass
    good = []
    for s in m.slots:
        try:
            model.well_formed(s.idx)
        except Malformed:
            continue
        if s.idx.common >= 0 and (s.a.size == 0 or s.a.min() >= 0):
            good.append(s)
    if not good:
        return None
    return storage.case_from_index(rng.choice(good).idx, rng)


RULE = ("seeded operation histories (quick: 2-12 steps, thorough: 3-24) over up to 4 live iindex slots built through the "
        "constructor from a dense model (1-D/2-D, 0-8 rows mostly, sometimes 12-40, rarely 257/300 and 65537/70000 rows; "
        "0-3 columns mostly, rarely 4-9 and 256/300; 1-5 distinct values incl. 255/256, 65535/65536 and negatives; "
        "contiguous or strided row-id arrays; 3-D only for sliced/slices1d; occasional 90-200-row sparse arrays for "
        "from_array's row-scan strategy); operations: new, from_array, shift_common, append (other slot, fresh operand "
        "with equal/different/absent common, zero rows, or the receiver itself), update (incl. cells set to the common and "
        "empty entries), filtered, sliced, slices1d, reindexed, collapsed, copy, column_stack, union/intersection/"
        "difference_update (dict or index operand), observers, persist->restart->reload and persist->crash->reload "
        "through the simulated disk; every live slot is judged after every step by all three oracle groups. distinct = "
        "distinct histories (full JSON); non-trivial = at least two steps and two different operation kinds")
