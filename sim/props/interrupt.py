"""C20 -- an interrupt raised at any cancellation point stops the cube cleanly (engine ``sched``).

The fault injector *is* the ``check_interrupt`` callback.  For one cube workload with k
sub-cubes:

* serial mode: the fault-free run, then a raise at EVERY invocation index i in 0..k-1, once
  with an ``Exception`` subclass and once with a ``BaseException`` subclass (exhaustive);
* pooled mode: the fault-free run, singletons {i} (all of them, or a seeded sample when k is
  large in the quick tier) and seeded subsets ("all", "last only", "first of every chunk",
  random), each under its own seeded schedule and pool size; ``Exception`` subclasses only,
  because the real ThreadPool worker loop catches ``Exception`` only;
* after every faulty run a recovery ``calculate`` on the SAME cube and aggregate objects
  (alternating serial / pooled) must equal a fresh evaluation bit for bit.
"""
import random

from .. import core, cubes, model, poolrun, sched
from ..core import Violation

PROP = "C20"


class Interrupt(Exception):
    pass


class HardInterrupt(BaseException):
    pass


# what callers actually raise from a cancellation callback: their own subclass of some standard class
_BASES = {"stop": StopIteration, "exc": Exception, "base": BaseException, "runtime": RuntimeError, "value": ValueError, "key": KeyError,
          "os": OSError, "type": TypeError, "arith": ArithmeticError, "assert": AssertionError, "lookup": IndexError,
          "timeout": TimeoutError, "attr": AttributeError, "interrupted": InterruptedError}
_CLASSES = {"exc": Interrupt, "base": HardInterrupt}


class CancelledWithReasons(Exception):
    """An exception OBJECT that is falsy: it carries a list of reasons, which is empty here (ExceptionGroup-like
    classes and exceptions with __len__/__bool__ exist in the wild).  It is an exception all the same."""

    def __len__(self):
        return 0


_BASES["falsy"] = Exception
_CLASSES["falsy"] = CancelledWithReasons


def exc_class(kind):
    if kind not in _CLASSES:
        _CLASSES[kind] = type("Cancelled_" + kind, (_BASES[kind],), {})
    return _CLASSES[kind]


POOLED_KINDS = tuple(k for k in _BASES if k != "base")


class Injector:
    """check_interrupt callback with a fault plan.

    serial plan: raise at invocation index in `at_counts`.
    pooled plan: raise when the current sub-cube's submission number is in `at_items`.
    """

    def __init__(self, at_counts=(), at_items=(), exc_cls=Interrupt):
        self.at_counts = set(at_counts)
        self.at_items = set(at_items)
        self.exc_cls = exc_cls
        self.calls = 0
        self.consulted = []  # submission numbers (pooled) in call order
        self.raised = []
        self.raised_items = []
        self.unattributed = 0

    def __call__(self):
        i = self.calls
        self.calls += 1
        sess = sched.ACTIVE
        item = None
        if sess is not None:
            cur = getattr(sess.current_task, "value", None)
            if cur is not None:
                item = cur[1]
                self.consulted.append(item)
        if item is None and sess is not None:
            self.unattributed += 1  # consulted outside any pool task (e.g. by the submitting thread)
        fire = i in self.at_counts or (item in self.at_items if item is not None else (sess is not None and i in self.at_items))
        if fire:
            e = self.exc_cls("injected at invocation %d (sub-cube %r)" % (i, item))
            self.raised.append(e)
            self.raised_items.append(item)
            raise e


class BudgetInjector(Injector):
    """A callback OBJECT with a truth value, as budget / queue-like helpers have: it is falsy exactly
    when it is about to raise (nothing left).  Being consulted must not depend on that."""

    def __len__(self):
        i = self.calls
        sess = sched.ACTIVE
        item = None
        if sess is not None:
            cur = getattr(sess.current_task, "value", None)
            item = cur[1] if cur is not None else None
        about_to = i in self.at_counts or (item in self.at_items if item is not None else (sess is not None and i in self.at_items))
        return 0 if about_to else 1


class NeverTrueInjector(Injector):
    def __bool__(self):
        return False


class _Poller:
    """Owns the callback as a bound method; typically referenced by nothing but that bound method."""

    def __init__(self, inj):
        self.inj = inj

    def poll(self):
        return self.inj()


class AnyArgsInjector(Injector):
    """A generic hook object that tolerates whatever arguments it is called with (Mock-like)."""

    def __call__(self, *args, **kwargs):
        return Injector.__call__(self)


class CountingInjector(Injector):
    """A callback that RETURNS something (its invocation count, as a Mock or a counter's __next__ would):
    a return value is not a raise."""

    def __call__(self):
        Injector.__call__(self)
        return self.calls


class UnhashableInjector(Injector):
    """A callable instance that defines __eq__ and therefore has no hash (what a @dataclass with __call__ is)."""

    __hash__ = None

    def __eq__(self, other):
        return self is other


INJECTORS = {"plain": Injector, "budget": BudgetInjector, "falsy": NeverTrueInjector, "anyargs": AnyArgsInjector,
             "counting": CountingInjector, "unhashable": UnhashableInjector}


def n_subcubes(w):
    return cubes.scaffold_size(w)


def snapshot_inputs(dims, aggs_args):
    return model.snapshot([dims, aggs_args])


class Runner:
    def __init__(self, w, stats, log):
        self.w = w
        self.stats = stats
        self.log = log
        self.k = n_subcubes(w)
        cube = cubes.build_cube(w)
        cube.parallel = False
        self.ref = cubes.evaluate(cube, cubes.build_aggs(w))
        self.ref_frozen = cubes.freeze(self.ref)
        self.where = w["cube"] + ".calculate"

    def count(self, key, n=1):
        if self.stats is not None:
            self.stats.count(key, n)

    # ---------------------------------------------------------------- one plan
    def run_plan(self, plan):
        """plan: dict(mode, at, exc, poolsize, spec, sched_seed|decisions, recovery, rec_*)."""
        w = self.w
        mode = plan["mode"]
        if mode == "rehook":
            return self.run_rehook(plan)
        exc_cls = exc_class(plan.get("exc", "exc"))
        # shared argument objects, so that "the inputs are unchanged" can be observed
        dims = cubes.build_dims(w)
        args = [(cubes.build_var(a.get("arr")), cubes.build_var(a.get("weights"))) for a in w["aggs"]]
        snap = model.snapshot([dims, args])
        cube = cubes.build_cube(w, dims)
        aggs = [cubes.build_agg(w, spec, a) for spec, a in zip(w["aggs"], args)]
        at = list(plan["at"])
        via = plan.get("via", "instance")
        holder = {}
        if via not in ("instance", "temporary-bound-method"):
            # the callback is supplied through a subclass (as an attribute or as a method), not set on the instance
            base = type(cube)
            if via == "subclass-attribute":
                sub = type(base.__name__ + "WithCallback", (base,), {"check_interrupt": staticmethod(lambda: holder["inj"]())})
            else:
                sub = type(base.__name__ + "WithCallback", (base,), {"check_interrupt": lambda self: holder["inj"]()})
            cube = sub(dims, interacting_shape=tuple(int(e) for e in w["ishape"]))
            self.count("callback_via_" + via)
        if mode == "serial":
            inj = INJECTORS[plan.get("injector", "plain")](at_counts=at, exc_cls=exc_cls)
            cube.parallel = False
            if via == "instance":
                cube.check_interrupt = inj
            elif via == "temporary-bound-method":
                cube.check_interrupt = _Poller(inj).poll  # nothing else refers to the _Poller instance
            else:
                holder["inj"] = inj
            out = exc = None
            try:
                out = cubes.evaluate(cube, aggs)
            except BaseException as e:  # noqa: B902 - the injected BaseException must come out
                if isinstance(e, (KeyboardInterrupt, SystemExit, MemoryError)):
                    raise
                exc = e
            self.judge_serial(inj, at, out, exc)
            self.count("serial_runs")
            self.count("raises_planned_serial", len(at))
            self.count("raises_fired_serial", len(inj.raised))
            if at:
                self.count("fault_interrupt_serial_" + ("BaseException" if exc_cls is HardInterrupt else "Exception"))
                self.count("interrupt_class_" + plan.get("exc", "exc"))
                self.count("injector_" + plan.get("injector", "plain"))
                if at[0] == 0:
                    self.count("probe_interrupt_first_subcube")
                elif at[0] == self.k - 1:
                    self.count("probe_interrupt_last_subcube")
                else:
                    self.count("probe_interrupt_middle_subcube")
        else:
            inj = INJECTORS[plan.get("injector", "plain")](at_items=at, exc_cls=exc_cls)
            if via not in ("instance", "temporary-bound-method"):
                holder["inj"] = inj
            cb = inj if via == "instance" else (_Poller(inj).poll if via == "temporary-bound-method" else None)
            res = self.pooled(plan, "", cube, aggs, cb)
            self.judge_pooled(inj, at, res)
            self.count("pooled_runs")
            self.count("raises_planned_pooled", len(at))
            self.count("raises_fired_pooled", len(inj.raised))
            if at:
                self.count("fault_interrupt_pooled")
                self.count("interrupt_class_" + plan.get("exc", "exc"))
            if len(inj.raised) >= 2:
                self.count("probe_interrupt_two_chunks_at_once")
        if model.snapshot([dims, args]) != snap:
            raise Violation(PROP, "inputs-changed", self.where, "an input array/index changed during %s evaluation" % mode)
        # the same objects are used again, faults over: after an interrupted run (recovery) and also after a run
        # whose callback never raised ("not raising makes it return; a following uninterrupted calculate on the
        # same objects equals a fresh evaluation")
        what = ("an interrupted %s" if at else "an uninterrupted %s") % mode
        if not at:
            self.count("reuse_after_uninterrupted_run")
        if via in ("instance", "temporary-bound-method"):
            cube.check_interrupt = None
        else:
            holder["inj"] = lambda: None
        rec = plan.get("recovery", "serial")
        if rec == "serial":
            cube.parallel = False
            try:
                out = cubes.evaluate(cube, aggs)
            except Exception as e:
                raise Violation(PROP, "recovery-raised:" + type(e).__name__, self.where,
                                "after %s run the next serial calculate raised %r" % (what, e))
            self.count("recovery_calls_serial")
        else:
            res = self.pooled(plan, "rec_", cube, aggs, None)
            if res.exc is not None:
                cls = "no-progress" if isinstance(res.exc, (sched.NoProgress, sched.PoolHang)) else \
                    "recovery-raised:" + type(res.exc).__name__
                raise Violation(PROP, cls, self.where,
                                "after %s run the next pooled calculate raised %r" % (what, res.exc))
            out = res.out
            self.count("recovery_calls_pooled")
        if cubes.freeze(out) != self.ref_frozen:
            raise Violation(PROP, "recovery-differs", self.where,
                            "after %s run, calculate on the same objects differs from a fresh "
                            "evaluation: output%s" % (what, cubes.first_difference(self.ref, out)))
        if model.snapshot([dims, args]) != snap:
            raise Violation(PROP, "inputs-changed", self.where, "an input changed during the recovery evaluation")

    def run_rehook(self, plan):
        """Serial run in which the installed callback is exchanged WHILE calculate runs: what is installed when a
        sub-cube starts is what gets consulted.  "disarm": the callback takes itself off the cube at its j-th
        invocation and never raises - calculate returns the fresh result.  "arm": a harmless callback puts a raising
        one on the cube at its j-th invocation (a cancel arriving while a sub-cube is being filled) - the next
        sub-cube is a cancellation point.  Serial only: in pooled mode the exchange would race with other tasks."""
        w, k, j, kind = self.w, self.k, plan["at"][0], plan["rehook"]
        cube = cubes.build_cube(w)
        cube.parallel = False
        aggs = cubes.build_aggs(w)
        exc_cls = exc_class(plan.get("exc", "exc"))
        second = Injector(at_counts=[0], exc_cls=exc_cls)
        state = {"calls": 0}

        def first():
            i = state["calls"]
            state["calls"] += 1
            if i == j:
                cube.check_interrupt = None if kind == "disarm" else second

        cube.check_interrupt = first
        out = exc = None
        try:
            out = cubes.evaluate(cube, aggs)
        except Exception as e:
            exc = e
        self.count("rehook_" + kind)
        if state["calls"] != j + 1:
            raise Violation(PROP, "callback-count", self.where,
                            "a callback that was exchanged at its invocation %d was consulted %d times (serial, %d sub-cubes)"
                            % (j, state["calls"], k))
        if kind == "arm" and j < k - 1:
            if exc is None:
                raise Violation(PROP, "interrupt-swallowed", self.where,
                                "a raising callback installed during sub-cube %d of %d was never honoured: calculate returned"
                                % (j, k))
            if not second.raised or exc is not second.raised[0]:
                raise Violation(PROP, "wrong-exception:" + type(exc).__name__, self.where,
                                "the callback installed during sub-cube %d raised %r but calculate raised %r"
                                % (j, second.raised[:1], exc))
            if second.calls != 1:
                raise Violation(PROP, "continued-after-interrupt", self.where,
                                "the callback installed during sub-cube %d raised at once but was consulted %d times"
                                % (j, second.calls))
            self.count("fault_interrupt_serial_rehooked")
        else:
            if exc is not None:
                raise Violation(PROP, "raised-without-fault:" + type(exc).__name__, self.where,
                                "the callback %s at invocation %d and never raised, but calculate raised %r"
                                % ("removed itself" if kind == "disarm" else "installed another (never consulted)", j, exc))
            if cubes.freeze(out) != self.ref_frozen:
                raise Violation(PROP, "result-differs-with-callback", self.where,
                                "with a callback exchanged at invocation %d the result differs: output%s"
                                % (j, cubes.first_difference(self.ref, out)))
        cube.check_interrupt = None
        out = cubes.evaluate(cube, aggs)
        if cubes.freeze(out) != self.ref_frozen:
            raise Violation(PROP, "recovery-differs", self.where,
                            "after a run whose callback was exchanged, calculate on the same objects differs from a "
                            "fresh evaluation: output%s" % cubes.first_difference(self.ref, out))

    def pooled(self, plan, prefix, cube, aggs, inj):
        spec = plan[prefix + "spec"]
        script = plan.get(prefix + "decisions")
        rng = None if script is not None else random.Random(plan[prefix + "sched_seed"])
        res = poolrun.pooled_eval(self.w, plan["poolsize"], spec, rng=rng, script=script, cube=cube, aggs=aggs,
                                  check_interrupt=inj, step_cap=plan.get("step_cap", 3_000_000))
        plan[prefix + "decisions_recorded"] = res.session.decisions
        sess = res.session
        if self.stats is not None:
            self.stats.see("schedules", sess.schedule_digest())
            self.stats.count("sim_steps", sess.steps)
            self.stats.count("context_switches", sess.switches)
            if sess.pool_engaged:
                self.stats.count("pooled_runs_engaged")
        if self.log is not None:
            self.log.add(prefix, spec["strategy"], plan["poolsize"], sess.steps, sess.schedule_digest())
        return res

    # ---------------------------------------------------------------- oracles
    def judge_serial(self, inj, at, out, exc):
        k = self.k
        if not at:
            if exc is not None:
                raise Violation(PROP, "raised-without-fault:" + type(exc).__name__, self.where,
                                "no interrupt was injected but calculate raised %r" % (exc,))
            if inj.calls != k:
                raise Violation(PROP, "callback-count", self.where,
                                "callback consulted %d times for %d sub-cubes (serial, no fault)" % (inj.calls, k))
            if cubes.freeze(out) != self.ref_frozen:
                raise Violation(PROP, "result-differs-with-callback", self.where,
                                "with a callback that never raises the result differs: output%s"
                                % cubes.first_difference(self.ref, out))
            return
        i = at[0]
        if exc is None:
            raise Violation(PROP, "interrupt-swallowed", self.where,
                            "callback raised at invocation %d of %d but calculate returned (serial)" % (i, k))
        if not inj.raised or exc is not inj.raised[0]:
            raise Violation(PROP, "wrong-exception:" + type(exc).__name__, self.where,
                            "callback raised %r at invocation %d but calculate raised %r" % (inj.raised[:1], i, exc))
        if inj.calls != i + 1:
            raise Violation(PROP, "continued-after-interrupt", self.where,
                            "callback raised at invocation %d but was consulted %d times in all (serial)" % (i, inj.calls))

    def judge_pooled(self, inj, at, res):
        k = self.k
        sess = res.session
        if isinstance(res.exc, (sched.NoProgress, sched.PoolHang)):
            raise Violation(PROP, "no-progress", self.where, "pooled evaluation did not finish: %s" % res.exc)
        if res.pending:
            raise Violation(PROP, "tasks-outlive-calculate", self.where,
                            "%d submitted task(s) were still pending when calculate returned" % res.pending)
        if not sess.pool_engaged:
            # pooling did not engage (not this property's business); judged like a serial run by count
            if not at and (res.exc is not None or inj.calls != k):
                raise Violation(PROP, "callback-count", self.where,
                                "callback consulted %d times for %d sub-cubes (%r)" % (inj.calls, k, res.exc))
            return
        layout = sess.map_layouts[0]
        if len(set(inj.consulted)) != len(inj.consulted):
            raise Violation(PROP, "subcube-consulted-twice", self.where, "consulted %r" % (sorted(inj.consulted),))
        attributed = inj.unattributed == 0  # every consultation came from inside a pool task
        expected = set()
        for chunk in layout:
            for n in chunk:
                expected.add(n)
                if n in inj.at_items:
                    break
        if not at:
            if res.exc is not None:
                raise Violation(PROP, "raised-without-fault:" + type(res.exc).__name__, self.where,
                                "no interrupt was injected but pooled calculate raised %r" % (res.exc,))
            if inj.calls != k or (attributed and sorted(inj.consulted) != list(range(k))):
                raise Violation(PROP, "callback-count", self.where,
                                "callback consulted for sub-cubes %r (%d calls), expected each of %d once"
                                % (sorted(inj.consulted), inj.calls, k))
            if cubes.freeze(res.out) != self.ref_frozen:
                raise Violation(PROP, "result-differs-with-callback", self.where,
                                "pooled result with a never-raising callback differs: output%s"
                                % cubes.first_difference(self.ref, res.out))
            return
        if not inj.raised:
            # the plan never fired (the faulty sub-cube was not consulted at all): judged as a fault-free run
            if res.exc is not None:
                raise Violation(PROP, "raised-without-fault:" + type(res.exc).__name__, self.where,
                                "the injector raised nothing but pooled calculate raised %r" % (res.exc,))
            if inj.calls != k:
                raise Violation(PROP, "callback-count", self.where,
                                "callback consulted %d times for %d sub-cubes (pooled; sub-cubes %r were never consulted)"
                                % (inj.calls, k, sorted(set(at) - set(inj.consulted))))
            return
        if res.exc is None:
            raise Violation(PROP, "interrupt-swallowed", self.where,
                            "callback raised %d time(s) (sub-cubes %r) but pooled calculate returned"
                            % (len(inj.raised), inj.raised_items))
        if not any(res.exc is e for e in inj.raised):
            raise Violation(PROP, "wrong-exception:" + type(res.exc).__name__, self.where,
                            "pooled calculate raised %r, which the injector did not raise (%d injected)"
                            % (res.exc, len(inj.raised)))
        if not attributed:
            return  # consultations happened outside the tasks: per-chunk reach cannot be stated
        # a chunk must not go on past its own raise; stopping other chunks EARLIER is allowed
        if not set(inj.consulted) <= expected or inj.calls != len(inj.consulted):
            raise Violation(PROP, "continued-after-interrupt", self.where,
                            "chunks %r, raises at %r: consulted %r, but only %r can be reached when each chunk stops at "
                            "its first raise" % (layout, sorted(at), sorted(inj.consulted), sorted(expected)))
        first_of_chunk = {c[0] for c in layout if c}
        if any(n in first_of_chunk for n in at):
            self.count("probe_interrupt_first_task_of_chunk")


# ----------------------------------------------------------------------------- plans


def plans_for(w, rng, tier, est_steps):
    k = n_subcubes(w)
    plans = [{"mode": "serial", "at": [], "exc": "exc"}]
    for i in range(k):
        # an Exception-derived class (the family is drawn per plan) and a BaseException-derived one
        plans.append({"mode": "serial", "at": [i], "exc": rng.choice(POOLED_KINDS), "recovery": "serial" if i % 2 == 0 else "pooled"})
        plans.append({"mode": "serial", "at": [i], "exc": "base", "recovery": "pooled" if i % 2 == 0 else "serial"})
    if k >= 2:
        plans.append({"mode": "rehook", "rehook": "disarm", "at": [rng.randrange(k)], "exc": "exc"})
        plans.append({"mode": "rehook", "rehook": "arm", "at": [rng.randrange(k)], "exc": rng.choice(POOLED_KINDS)})
    singles = list(range(k))
    if tier == "quick" and k > 6:
        singles = sorted(rng.sample(singles, 6))
    subsets = [[]] + [[i] for i in singles]
    if k >= 2:
        subsets.append(list(range(k)))
        subsets.append([k - 1])
        subsets.append(sorted(rng.sample(range(k), rng.randint(2, k))))
        subsets.append(["first-of-every-chunk"])
    for s in subsets:
        poolsize = rng.choice((1, 2, 2, 3, 4, 8, rng.randint(1, 16)))
        if s == ["first-of-every-chunk"]:
            chunks = sched._chunks(list(range(k)), poolsize, None)
            s = [c[0] for c in chunks]
        plans.append({"mode": "pooled", "at": s, "exc": rng.choice(POOLED_KINDS), "poolsize": poolsize,
                      "recovery": rng.choice(("serial", "pooled"))})
    for p in plans:
        p.setdefault("poolsize", rng.choice((1, 2, 3, 4, 8)))
        p["injector"] = rng.choice(("plain", "plain", "budget", "falsy", "anyargs", "counting", "unhashable"))
        p["via"] = rng.choice(("instance", "instance", "instance", "subclass-attribute", "subclass-method", "temporary-bound-method"))
        if p["via"] != "instance":
            p["injector"] = "plain"
        for prefix in ("", "rec_"):
            seed = rng.getrandbits(48)
            p[prefix + "sched_seed"] = seed
            p[prefix + "spec"] = sched.make_spec(random.Random(seed ^ 0xC20), est_steps)
    return plans


def run(base_seed, idx, stats, opts):
    rng = core.rng_for(base_seed, "interrupt", idx)
    tier = opts.get("tier", "quick")
    w = cubes.gen_workload(rng, 1, 24 if tier == "thorough" else 12, max_rows=16, max_aggs=3)
    w["engage"] = "flag"
    log = core.EventLog()
    try:
        runner = Runner(w, stats, log)
    except Exception:
        stats.count("discarded_unsupported")
        return "discarded"
    est = 400 * max(1, runner.k) * len(w["aggs"])
    for plan in plans_for(w, rng, tier, est):
        try:
            runner.run_plan(plan)
        except Violation as v:
            v.extra["case"] = {"workload": w, "plan": _explicit(plan)}
            raise
        log.add(plan["mode"], tuple(plan["at"]), plan.get("exc"))
        stats.count("fault_plans")
        stats.see("fault_plans", core.digest_of([w["cube"], runner.k, plan["mode"], plan["at"], plan.get("exc")]))
    stats.count("evaluations")
    stats.count("cube_" + w["cube"])
    stats.count("subcubes_%02d" % runner.k)
    if w["N"] >= 1:
        stats.see("nontrivial_workloads", core.digest_of(w))
    stats.sample({"cube": w["cube"], "N": w["N"], "dims": [d["shape"] for d in w["dims"]],
                  "aggs": [a["f"] for a in w["aggs"]], "subcubes": runner.k})
    return log.hexdigest()


def _explicit(plan):
    """Replace the schedule seeds by the decisions that were actually taken."""
    p = {k: v for k, v in plan.items() if not k.endswith("_recorded")}
    for prefix in ("", "rec_"):
        rec = plan.get(prefix + "decisions_recorded")
        if rec is not None:
            p[prefix + "decisions"] = rec
    return p


def replay(case):
    runner = Runner(case["workload"], None, None)
    runner.run_plan(dict(case["plan"]))


def _fails_same(case, signature):
    try:
        replay(case)
    except Violation as v:
        return v.signature == signature
    except Exception:
        return False
    return False


def minimise(case, signature):
    best = {"workload": case["workload"], "plan": dict(case["plan"])}
    if not _fails_same(best, signature):
        return case
    aggs = core.ddmin(best["workload"]["aggs"],
                      lambda sub: bool(sub) and _fails_same({"workload": dict(best["workload"], aggs=sub),
                                                             "plan": best["plan"]}, signature), max_tests=30)
    best["workload"] = dict(best["workload"], aggs=aggs)
    for key in ("decisions", "rec_decisions"):
        if best["plan"].get(key):
            dec = core.ddmin(best["plan"][key],
                             lambda sub: _fails_same({"workload": best["workload"], "plan": dict(best["plan"], **{key: sub})},
                                                     signature), max_tests=150)
            best["plan"] = dict(best["plan"], **{key: dec})
    if len(best["plan"]["at"]) > 1:
        at = core.ddmin(best["plan"]["at"],
                        lambda sub: bool(sub) and _fails_same({"workload": best["workload"], "plan": dict(best["plan"], at=sub)},
                                                              signature), max_tests=40)
        best["plan"] = dict(best["plan"], at=at)
    return best


RULE = ("seeded cube workloads as in C16 but with 1-24 sub-cubes (quick: up to 12), both cube types, 1-3 aggregates; "
        "per workload: serial fault-free run; a raise at EVERY callback invocation index with a subclass of an Exception "
        "family drawn per plan (Exception, RuntimeError, ValueError, KeyError, OSError, TypeError, ArithmeticError, "
        "AssertionError, IndexError, TimeoutError, AttributeError, InterruptedError) and with a BaseException subclass "
        "(exhaustive per cube); pooled fault-free run, singleton raises (all in the thorough "
        "tier, <= 6 sampled in the quick tier when k > 6) and the subsets all / last / random / first-of-every-chunk, "
        "each under a seeded schedule and pool size 1-16; every faulty run is followed by a recovery calculate on the "
        "same cube and aggregate objects (serial or pooled) compared bit for bit with a fresh evaluation. "
        "evaluations = workloads; distinct non-trivial = distinct workloads with >= 1 row; fault plans counted separately")
