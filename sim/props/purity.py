"""C17 -- aggregations are pure: inputs untouched, no hidden state between calls
(engines ``sched`` + ``hist``).

One run is a *session*: a fixed set of shared objects -- two dimension lists over the same rows,
fact and weight variables (arrays or (values, validity) pairs whose hidden values are garbage),
two cube objects, 2-5 aggregate-function objects -- and a history of 2-8 calls on them:
``calculate`` of a sub-list in a random order, serially / pooled under a seeded schedule /
interrupted by an injected raise; the cube shortcut methods with the shared arguments; re-use of
the same aggregate objects on the other cube; construction of further cubes; the non-mutating
index methods.  After every call: (1) every shared argument is byte-identical to its snapshot,
(2) every returned array equals, bit for bit, the result of evaluating that one aggregate alone
on fresh copies with a fresh object, (3) arrays returned by earlier calls still equal their own
snapshots, (4) a call after an interrupted one is still correct.
"""
import random
import warnings

import numpy

from .. import core, cubes, model, poolrun, sched
from ..core import Violation
from .interrupt import Injector, Interrupt

PROP = "C17"
U32 = numpy.dtype(numpy.uint32)


# ----------------------------------------------------------------------------- generation


def gen_session(rng, tier):
    kind = rng.choice(("ccube", "xcube"))
    n = rng.choice((1, 2, 3, 5, 8, 12, rng.randint(0, 16)))
    dims_a, ishape_a = cubes.gen_dims(rng, n, 1, 8)
    dims_b, ishape_b = cubes.gen_dims(rng, n, 1, 6)
    variables = [cubes.gen_fact(rng, n, None if rng.random() < 0.6 else rng.choice((2, 3))) for _ in range(rng.randint(1, 3))]
    variables.append(cubes.gen_fact(rng, n, None))
    weights = [cubes.gen_weights(rng, n, array_only=True) for _ in range(rng.randint(1, 2))]
    names = cubes.CC_AGGS if kind == "ccube" else cubes.XC_AGGS
    aggs = []
    for _ in range(rng.randint(2, 5)):
        f = rng.choice(names)
        spec = {"f": f, "ignore_missing": rng.random() < 0.5, "rma": cubes.gen_rma(rng), "arr": None, "weights": None}
        r = rng.random()
        if r < 0.5:
            spec["weights"] = {"var": rng.randrange(len(weights))}
        elif r < 0.6 and f not in ("stddev", "covariance", "corrcoef"):
            spec["weights"] = {"scalar": rng.choice((1.0, 2.0, 0.5, 3))}
        if f != "count":
            cands = list(range(len(variables)))
            if f in ("covariance", "corrcoef"):
                cands = [i for i in cands if len(variables[i]["shape"]) == 2]
            elif f in ("min", "max", "quantile"):
                cands = [i for i in cands if len(variables[i]["shape"]) == 1]
            if not cands:
                continue
            spec["arr"] = {"var": rng.choice(cands)}
        if f in ("min", "max"):
            spec["weights"] = None
        if f == "quantile":
            spec["prob"] = rng.choice((0.0, 0.25, 0.5, 0.75, 1.0))
        aggs.append(spec)
    # a third cube over a DIFFERENT number of rows: only row-free aggregates (unweighted / scalar-weighted
    # count) can be re-used on it
    n2 = rng.choice([m for m in (0, 1, 2, 3, 4, 6, 9, 13, 20) if m != n])
    dims_c, ishape_c = cubes.gen_dims(rng, n2, 1, 4)
    if not any(a["f"] == "count" and (a["weights"] is None or "scalar" in a["weights"]) for a in aggs) and rng.random() < 0.7:
        aggs.append({"f": "count", "ignore_missing": rng.random() < 0.5, "rma": cubes.gen_rma(rng), "arr": None,
                     "weights": None if rng.random() < 0.7 else {"scalar": 2.0}})
    return {"cube": kind, "N": n, "dimsA": dims_a, "ishapeA": ishape_a, "dimsB": dims_b, "ishapeB": ishape_b,
            "N2": n2, "dimsC": dims_c, "ishapeC": ishape_c, "dimensionless": True,
            "vars": variables, "wvars": weights, "aggs": aggs,
            "xdtype": rng.choice(("int64", "int32", "uint8", "int16"))}


def workload_of(sess, which):
    if which == "D":
        # the dimensionless cube: one cell, no grouping at all
        return {"cube": sess["cube"], "N": sess["N"], "dims": [], "ishape": [], "xdtype": "int64", "aggs": [], "engage": "flag"}
    return {"cube": sess["cube"], "N": sess["N2"] if which == "C" else sess["N"], "dims": sess["dims" + which],
            "ishape": sess["ishape" + which], "xdtype": sess.get("xdtype", "int64"), "aggs": [], "engage": "flag"}


def cubes_of(sess):
    names = "ABC" if "dimsC" in sess else "AB"
    return names + "D" if sess.get("dimensionless") else names


def row_free(spec):
    return spec["f"] == "count" and (spec.get("weights") is None or "scalar" in spec["weights"])


def gen_ops(rng, sess, usable, tier):
    n_ops = rng.choice((2, 3, 4, 5, 6, 8))
    ops = []
    for i in range(n_ops):
        r = rng.random()
        cube = rng.choice([c for c in "ABCD" if usable.get(c)] or ["A"])
        if cube in "CD" and rng.random() < 0.4 and (usable["A"] or usable["B"]):
            cube = "A" if usable["A"] else "B"
        good = usable[cube]
        if r < 0.55 or i == n_ops - 1:
            sub = rng.sample(good, rng.randint(1, len(good)))
            if rng.random() < 0.15:
                # the same aggregate object twice in one pass
                sub.insert(rng.randrange(len(sub) + 1), rng.choice(sub))
            mode = rng.choices(("serial", "pooled", "interrupt-serial", "interrupt-pooled"), (5, 4, 1, 1))[0]
            if i == n_ops - 1 and mode.startswith("interrupt"):
                mode = "serial"
            op = {"op": "calc", "cube": cube, "aggs": sub, "mode": mode, "hooked": rng.random() < 0.3}
            if "pooled" in mode:
                seed = rng.getrandbits(48)
                op.update(poolsize=rng.choice((1, 2, 3, 4, 8)), sched_seed=seed,
                          spec=sched.make_spec(random.Random(seed ^ 0xC17), 2000))
            if mode == "interrupt-serial":
                op["at"] = [rng.randrange(64)]
            if mode == "interrupt-pooled":
                op["at"] = sorted(rng.sample(range(64), rng.randint(1, 3)))
            ops.append(op)
        elif r < 0.7:
            ops.append({"op": "shortcut", "cube": cube, "agg": rng.choice(good)})
        elif r < 0.8:
            ops.append({"op": "newcube", "cube": cube})
        elif r < 0.84 and cube not in "CD":
            ops.append({"op": "inferred", "cube": cube, "agg": rng.choice(good)})
        elif r < 0.86 and sess["cube"] == "ccube":
            # observe an index, let the caller swap two of its rows, observe again
            which = rng.choice("AB")
            k = rng.randrange(len(sess["dims" + which]))
            ops.append({"op": "index", "which": which, "dim": k, "method": "observers"})
            ops.append({"op": "caller_swap", "which": which, "dim": k, "col": rng.randrange(4), "pick": rng.randrange(16)})
            ops.append({"op": "index", "which": which, "dim": k, "method": "observers"})
        elif r < 0.88 and sess["cube"] == "ccube":
            # the CALLER re-encodes one of its dimension indexes in place (same dense content, other common)
            which = rng.choice("AB")
            ops.append({"op": "caller_shift", "which": which, "dim": rng.randrange(len(sess["dims" + which])),
                        "to": rng.randrange(4)})
        elif r < 0.92:
            # the CALLER rewrites one of its fact arrays in place and builds new aggregate objects from it
            i = rng.randrange(len(sess["vars"]))
            spec = cubes.gen_fact(rng, sess["N"], None if len(sess["vars"][i]["shape"]) == 1 else sess["vars"][i]["shape"][1])
            ops.append({"op": "caller_rewrite", "var": i, "values": spec["values"], "validity": spec["validity"],
                        "form": spec["form"], "dtype": spec["dtype"]})
        elif sess["cube"] == "ccube":
            ops.append(gen_index_op(rng, sess))
        else:
            ops.append({"op": "newcube", "cube": cube})
    return ops


def gen_index_op(rng, sess):
    which = rng.choice([c for c in cubes_of(sess) if c != "D"])
    dims = sess["dims" + which]
    k = rng.randrange(len(dims))
    shape = dims[k]["shape"]
    nd = len(shape)
    n = shape[0]
    methods = ["copy", "slices1d", "common_rowids", "interactions"]
    if nd <= 2:
        methods += ["to_array", "filtered", "reindexed", "observers", "column_stack", "from_array"]
    if nd == 2:
        methods += ["collapsed", "sliced"]
    if nd == 3:
        methods += ["sliced"]
    m = rng.choice(methods)
    op = {"op": "index", "which": which, "dim": k, "method": m}
    if m == "filtered":
        op["mask"] = [rng.random() < 0.6 for _ in range(n)]
    elif m == "sliced":
        op["orders"] = [rng.choice((None, rng.randrange(e), rng.sample(range(e), rng.randint(1, e)))) for e in shape[1:]]
    elif m == "reindexed":
        op["mapping"] = [[v, rng.randrange(4)] for v in range(4) if rng.random() < 0.7]
        op["mapping_kind"] = rng.choice(model.MAPPING_KINDS)
        op["copy"] = rng.random() < 0.5
    elif m == "collapsed":
        op["precedence"] = rng.sample(range(4), rng.randint(1, 4))
    elif m == "column_stack":
        op["new_common"] = rng.choice((None, 0, 1, 2))
        op["copy"] = rng.random() < 0.5
    elif m == "from_array":
        op["counts"] = rng.random() < 0.6
        op["common"] = rng.choice((None, 0, 1, 2, 3, 7))
        op["mapping"] = [[v, rng.randrange(4)] for v in range(8)] if rng.random() < 0.4 else None
    return op


# ----------------------------------------------------------------------------- execution


class PuritySession:
    def __init__(self, sess, stats=None, log=None):
        self.s = sess
        self.stats = stats
        self.log = log
        self.kind = sess["cube"]
        # the shared objects
        self.names = cubes_of(sess)
        self.w = {c: workload_of(sess, c) for c in self.names}
        self.dims = {c: cubes.build_dims(self.w[c]) for c in self.names}
        self.vars = [cubes.build_var(v) for v in sess["vars"]]
        self.wvars = [cubes.build_var(v) for v in sess["wvars"]]
        self.cube = {c: cubes.build_cube(self.w[c], self.dims[c]) for c in self.names}
        self.aggs = [self._agg(spec, shared=True) for spec in sess["aggs"]]
        self.refs = {}
        self.earlier = []
        self.snap = self._snapshot()
        self.after_interrupt = False

    def count(self, key, n=1):
        if self.stats is not None:
            self.stats.count(key, n)

    def _snapshot(self):
        return model.snapshot([self.dims["A"], self.dims["B"], self.vars, self.wvars, self.dims.get("C", [])])


    def _args(self, spec, shared):
        def get(ref, pool, specs):
            if ref is None:
                return None
            if "scalar" in ref:
                return ref["scalar"]
            return pool[ref["var"]] if shared else cubes.build_var(specs[ref["var"]])

        return (get(spec.get("arr"), self.vars, self.s["vars"]), get(spec.get("weights"), self.wvars, self.s["wvars"]))

    def _agg(self, spec, shared):
        try:
            return cubes.build_agg({"cube": self.kind}, spec, self._args(spec, shared))
        except Exception:
            return None

    def reference(self, cube, i):
        """Aggregate i evaluated ALONE on fresh copies with a fresh object (None if unsupported)."""
        key = (cube, i)
        if key not in self.refs:
            if cube == "C" and not row_free(self.s["aggs"][i]):
                self.refs[key] = None  # a variable with N rows cannot be crossed with a cube over N2 rows
                return None
            try:
                fresh_cube = cubes.build_cube(self.w[cube])
                fresh_cube.parallel = False
                agg = cubes.build_agg({"cube": self.kind}, self.s["aggs"][i], self._args(self.s["aggs"][i], shared=False))
                self.refs[key] = cubes.evaluate(fresh_cube, [agg])[0]
            except Exception:
                self.refs[key] = None
        return self.refs[key]

    def usable(self):
        out = {}
        for c in self.names:
            out[c] = [i for i in range(len(self.aggs)) if self.aggs[i] is not None and self.reference(c, i) is not None]
        out.setdefault("C", [])
        out.setdefault("D", [])
        return out

    # ---------------------------------------------------------------- oracle pieces
    def check_inputs(self, where):
        if self._snapshot() != self.snap:
            names = []
            for label, now, then in (("dims of cube A", model.snapshot(self.dims["A"]), self.snap[1][0]),
                                     ("dims of cube B", model.snapshot(self.dims["B"]), self.snap[1][1]),
                                     ("fact variables", model.snapshot(self.vars), self.snap[1][2]),
                                     ("weight variables", model.snapshot(self.wvars), self.snap[1][3]),
                                     ("dims of cube C", model.snapshot(self.dims.get("C", [])), self.snap[1][4])):
                if now != then:
                    names.append(label)
            raise Violation(PROP, "argument-mutated", where, "%s changed: %s" % (where, ", ".join(names) or "shared arguments"))

    def check_earlier(self, where):
        for label, obj, frozen in self.earlier:
            if cubes.freeze(obj) != frozen:
                raise Violation(PROP, "earlier-result-changed", where,
                                "an array returned by an earlier call (%s) changed during %s" % (label, where))

    def check_result(self, where, cube, i, got):
        ref = self.reference(cube, i)
        if cubes.freeze(got) != cubes.freeze(ref):
            extra = " (first call after an interrupted one)" if self.after_interrupt else ""
            raise Violation(PROP, "result-depends-on-history", where,
                            "aggregate %s on cube %s%s: output%s vs. the same aggregate evaluated alone on fresh objects"
                            % (self.s["aggs"][i]["f"], cube, extra, cubes.first_difference(ref, got)))
        self.earlier.append(("%s[%s]" % (where, self.s["aggs"][i]["f"]), got, cubes.freeze(got)))

    # ---------------------------------------------------------------- operations
    def execute(self, op):
        kind = op["op"]
        where = getattr(self, "do_" + kind)(op)
        if where is None:
            self.count("skipped_ops")
            return
        self.count("op_" + where.split(":")[0])
        self.check_inputs(where)
        self.check_earlier(where)
        if self.log is not None:
            self.log.add(where)

    def do_calc(self, op):
        c = op["cube"]
        idxs = [i for i in op["aggs"] if i < len(self.aggs) and self.aggs[i] is not None and self.reference(c, i) is not None]
        if not idxs:
            return None
        if c not in self.cube:
            return None
        cube = self.cube[c]
        if c == "C":
            self.count("probe_aggregate_reused_on_cube_with_other_row_count")
        if c == "D":
            self.count("probe_aggregate_used_on_dimensionless_cube")
        funcs = [self.aggs[i] for i in idxs]
        mode = op["mode"]
        where = "calculate:" + mode
        k = cubes.scaffold_size(self.w[c])
        cube.check_interrupt = None
        cube.parallel = False
        inj = None
        if op.get("hooked") and not mode.startswith("interrupt"):
            cube.check_interrupt = Injector()  # a callback that never raises must not change anything
            self.count("probe_call_with_a_callback_that_never_raises")
        if mode.startswith("interrupt"):
            at = [a % k for a in op["at"]]
            inj = Injector(at_counts=at if mode == "interrupt-serial" else (),
                           at_items=at if mode == "interrupt-pooled" else (), exc_cls=Interrupt)
            cube.check_interrupt = inj
        out = exc = None
        if "pooled" in mode:
            script = op.get("decisions")
            rng = None if script is not None else random.Random(op["sched_seed"])
            res = poolrun.pooled_eval(self.w[c], op["poolsize"], op["spec"], rng=rng, script=script, cube=cube, aggs=funcs,
                                      check_interrupt=inj, step_cap=3_000_000)
            op["decisions_recorded"] = res.session.decisions
            out, exc = res.out, res.exc
            if self.stats is not None:
                self.stats.see("schedules", res.session.schedule_digest())
                self.stats.count("sim_steps", res.session.steps)
                self.stats.count("context_switches", res.session.switches)
            if self.log is not None:
                self.log.add(res.session.schedule_digest(), res.session.steps)
        else:
            try:
                out = cubes.evaluate(cube, funcs)
            except Exception as e:
                exc = e
        cube.check_interrupt = None
        cube.parallel = False
        if inj is not None:
            self.count("fault_interrupt_during_session")
            if exc is None and inj.raised:
                # swallowing an interrupt is C20's business; here the outputs are simply judged
                pass
            if exc is not None:
                self.after_interrupt = True
                return where
        if exc is not None:
            raise Violation(PROP, "call-raised:" + type(exc).__name__, where,
                            "calculate(%r) on cube %s raised %r although each aggregate evaluates alone"
                            % ([self.s["aggs"][i]["f"] for i in idxs], c, exc))
        if len(out) != len(idxs):
            raise Violation(PROP, "wrong-number-of-results", where, "%d results for %d aggregates" % (len(out), len(idxs)))
        for i, got in zip(idxs, out):
            self.check_result(where, c, i, got)
        if self.after_interrupt:
            self.count("probe_correct_call_after_interrupt")
            self.after_interrupt = False
        if len(idxs) > 1:
            self.count("probe_several_aggregates_in_one_pass")
        if len(set(idxs)) < len(idxs):
            self.count("probe_same_aggregate_object_twice_in_one_pass")
        return where

    def do_shortcut(self, op):
        c, i = op["cube"], op["agg"]
        if c not in self.cube or i >= len(self.aggs) or self.aggs[i] is None or self.reference(c, i) is None:
            return None
        spec = self.s["aggs"][i]
        arr, weights = self._args(spec, shared=True)
        cube = self.cube[c]
        cube.check_interrupt = None
        cube.parallel = False
        rma = cubes.build_rma(spec["rma"])
        f = spec["f"]
        where = "shortcut:" + f
        meth = getattr(cube, f)
        try:
            with warnings.catch_warnings():
                warnings.simplefilter("ignore")
                with numpy.errstate(all="ignore"):
                    if f == "count":
                        got = meth(weights, None, spec["ignore_missing"], rma)
                    elif f in ("min", "max"):
                        got = meth(arr, spec["ignore_missing"], rma)
                    elif f == "quantile":
                        got = meth(arr, spec["prob"], weights, spec["ignore_missing"], rma)
                    else:
                        got = meth(arr, weights, spec["ignore_missing"], rma)
        except Exception as e:
            raise Violation(PROP, "call-raised:" + type(e).__name__, where, "cube.%s(...) raised %r" % (f, e))
        self.check_result(where, c, i, got)
        return where

    def do_newcube(self, op):
        c = op["cube"]
        if c not in self.cube:
            return None
        self.cube[c] = cubes.build_cube(self.w[c], self.dims[c])
        return "newcube"

    def do_inferred(self, op):
        """A cube built WITHOUT an explicit shape over the shared dimensions (shape inference reads them)."""
        import catii

        c, i = op["cube"], op["agg"]
        if c not in self.cube or i >= len(self.aggs) or self.aggs[i] is None or self.reference(c, i) is None:
            return None
        if self.kind == "xcube" and any(d.dtype.kind == "u" or d.size == 0 for d in self.dims[c]):
            return None  # shape inference over unsigned / empty arrays raises under NumPy 2: not purity's business
        if self.kind == "ccube" and any(d.shape[0] == 0 and len(d) == 0 for d in self.dims[c]) and False:
            return None
        cls = catii.ccube if self.kind == "ccube" else catii.xcube
        where = "inferred-shape cube"
        try:
            shared = cls(self.dims[c])
            fresh = cls(cubes.build_dims(self.w[c]))
            got = cubes.evaluate(shared, [self.aggs[i]])[0]
            agg = cubes.build_agg({"cube": self.kind}, self.s["aggs"][i], self._args(self.s["aggs"][i], shared=False))
            want = cubes.evaluate(fresh, [agg])[0]
        except Exception:
            self.count("inferred_shape_cube_raised_not_judged")
            return where
        if cubes.freeze(got) != cubes.freeze(want):
            raise Violation(PROP, "result-depends-on-history", where,
                            "aggregate %s on a cube with inferred shape: output%s vs. fresh objects"
                            % (self.s["aggs"][i]["f"], cubes.first_difference(want, got)))
        self.earlier.append((where, got, cubes.freeze(got)))
        return where

    def do_caller_shift(self, op):
        """Not a library call under test: the caller legitimately changes its own index (shift_common keeps the dense
        content).  Afterwards results must equal a fresh evaluation of the arguments AS THEY ARE NOW."""
        c = op["which"]
        if self.kind != "ccube" or c not in self.dims or op["dim"] >= len(self.dims[c]):
            return None
        d = self.s["dims" + c][op["dim"]]
        if len(d["shape"]) > 2:
            return None  # shift_common is specified for 1-D and 2-D indexes only
        extent = self.s["ishape" + c][op["dim"]]
        to = op["to"] % max(1, extent)
        try:
            self.dims[c][op["dim"]].shift_common(to)
        except Exception:
            return None
        self.s = dict(self.s)
        self.s["dims" + c] = [dict(x) for x in self.s["dims" + c]]
        self.s["dims" + c][op["dim"]]["common"] = to
        self.w[c] = workload_of(self.s, c)
        for key in [k for k in self.refs if k[0] == c]:
            del self.refs[key]
        self.snap = self._snapshot()
        return "caller:shift_common"

    def do_caller_swap(self, op):
        """The caller edits one of its dimension indexes: one listed row becomes common and one common row gets that
        value (same keys, same counts, other content).  Later results must be those of the index as it is now."""
        c = op["which"]
        if self.kind != "ccube" or c not in self.dims or op["dim"] >= len(self.dims[c]):
            return None
        spec = self.s["dims" + c][op["dim"]]
        if len(spec["shape"]) > 2:
            return None
        idx = self.dims[c][op["dim"]]
        a = numpy.array(spec["values"], dtype=numpy.int64).reshape(spec["shape"])
        col = () if a.ndim == 1 else (op["col"] % a.shape[1],)
        column = a[(slice(None),) + col]
        listed = [r for r in range(len(column)) if column[r] != idx.common]
        common = [r for r in range(len(column)) if column[r] == idx.common]
        if not listed or not common:
            return None
        r1, r2 = listed[op["pick"] % len(listed)], common[op["pick"] % len(common)]
        v = int(column[r1])
        try:
            idx.update({(int(idx.common),) + col: numpy.array([r1], dtype=U32), (v,) + col: numpy.array([r2], dtype=U32)})
        except Exception:
            return None
        a[(r1,) + col] = idx.common
        a[(r2,) + col] = v
        self.s = dict(self.s)
        self.s["dims" + c] = [dict(x) for x in self.s["dims" + c]]
        self.s["dims" + c][op["dim"]]["values"] = a.ravel().tolist()
        self.s["dims" + c][op["dim"]]["common"] = idx.common
        self.w[c] = workload_of(self.s, c)
        for key in [k for k in self.refs if k[0] == c]:
            del self.refs[key]
        self.snap = self._snapshot()
        return "caller:swap"

    def do_caller_rewrite(self, op):
        """The caller re-uses one array buffer: new values written in place, then NEW aggregate objects built from
        the same array object.  Their results must be those of the values as they are now."""
        i = op["var"]
        if i >= len(self.vars):
            return None
        old = self.s["vars"][i]
        if old["form"] != op["form"] or old["dtype"] != op["dtype"] or old.get("layout") in ("readonly", "list"):
            return None
        new_spec = dict(old, values=list(op["values"]), validity=op["validity"])
        fresh = cubes.build_var(dict(new_spec, layout="plain"))
        target = self.vars[i]
        try:
            if isinstance(target, tuple):
                target[0][...] = fresh[0]
                target[1][...] = fresh[1]
            else:
                target[...] = fresh
        except Exception:
            return None
        self.s = dict(self.s)
        self.s["vars"] = list(self.s["vars"])
        self.s["vars"][i] = new_spec
        for n, spec in enumerate(self.s["aggs"]):
            if (spec.get("arr") or {}).get("var") == i:
                self.aggs[n] = self._agg(spec, shared=True)  # a NEW aggregate object from the SAME array object
                for key in [k for k in self.refs if k[1] == n]:
                    del self.refs[key]
        self.snap = self._snapshot()
        self.count("probe_caller_rewrote_shared_array_in_place")
        return "caller:rewrite"

    def do_index(self, op):
        if self.kind != "ccube":
            return None
        from catii.iindexes import column_stack

        if op["which"] not in self.dims:
            return None
        dims = self.dims[op["which"]]
        if op["dim"] >= len(dims):
            return None
        idx = dims[op["dim"]]
        m = op["method"]
        where = "index:" + m
        nd = len(idx.shape)
        try:
            with warnings.catch_warnings():
                warnings.simplefilter("ignore")
                if m == "copy":
                    r = idx.copy()
                    if model.shares_storage(r, idx):
                        raise Violation(PROP, "copy-shares-storage", where, "copy() shares storage with its source")
                elif m == "slices1d":
                    list(idx.slices1d())
                elif m == "common_rowids":
                    idx.common_rowids(*([0] if nd == 2 else []))if nd <= 2 else None
                elif m == "interactions":
                    self.cube[op["which"]].interactions() if all(len(d.shape) == 1 for d in dims) else None
                elif m == "to_array" and nd <= 2:
                    idx.to_array(dtype=int)
                elif m == "filtered" and nd <= 2 and len(op["mask"]) == idx.shape[0]:
                    mask = numpy.array(op["mask"], dtype=bool)
                    ms = model.snapshot(mask)
                    idx.filtered(mask, int(mask.sum()))
                    if model.snapshot(mask) != ms:
                        raise Violation(PROP, "argument-mutated", where, "filtered changed its mask")
                elif m == "sliced" and nd >= 2 and len(op["orders"]) == nd - 1:
                    orders = [list(o) if isinstance(o, list) else o for o in op["orders"]]
                    os_ = model.snapshot(orders)
                    idx.sliced(*orders)
                    if model.snapshot(orders) != os_:
                        raise Violation(PROP, "argument-mutated", where, "sliced changed an order list")
                elif m == "reindexed" and nd <= 2:
                    mapping = model.make_mapping(op["mapping"], op.get("mapping_kind", "dict"))
                    ms = model.snapshot(mapping)
                    idx.reindexed(mapping, copy=op["copy"])
                    if model.snapshot(mapping) != ms:
                        raise Violation(PROP, "argument-mutated", where, "reindexed changed its mapping")
                elif m == "collapsed" and nd == 2:
                    prec = list(op["precedence"])
                    ps = model.snapshot(prec)
                    idx.collapsed(prec)
                    if model.snapshot(prec) != ps:
                        raise Violation(PROP, "argument-mutated", where, "collapsed changed its precedence list")
                elif m == "observers" and nd <= 2:
                    forced = idx.to_dict(force=True)
                    list(idx.items(force=True))
                    for key in list(dict.keys(idx))[:3]:
                        idx.get(key, None, True)
                    idx.get((idx.common,) + ((0,) if nd == 2 else ()), None, True)
                    # a query answers for the index as it is NOW, whatever was asked before
                    dense = model.decode(idx)
                    cols = [()] if nd == 1 else [(j,) for j in range(idx.shape[1])]
                    want = {k: v.tolist() for k, v in dict.items(idx)}
                    for col in cols:
                        want[(idx.common,) + col] = numpy.nonzero(dense[(slice(None),) + col] == idx.common)[0].tolist()
                    if {k: v for k, v in forced.items() if v} != {k: v for k, v in want.items() if v}:
                        raise Violation(PROP, "result-depends-on-history", where,
                                        "to_dict(force=True) does not describe the index as it is now: %r vs %r" % (forced, want))
                elif m == "from_array" and nd <= 2:
                    import catii

                    values = idx.to_array(dtype=int)
                    vals, cnts = numpy.unique(values, return_counts=True)
                    counts = dict(zip(vals.tolist(), cnts.tolist())) if op["counts"] else None
                    mapping = dict(map(tuple, op["mapping"])) if op["mapping"] else None
                    snaps = model.snapshot([values, counts, mapping])
                    try:
                        catii.iindex.from_array(values, counts=counts, common=op["common"], mapping=mapping)
                    except Exception:
                        self.count("index_method_raised_not_judged")
                    if model.snapshot([values, counts, mapping]) != snaps:
                        raise Violation(PROP, "argument-mutated", where, "from_array changed its values / counts / mapping argument")
                elif m == "column_stack" and nd <= 2:
                    others = [d for d in dims if len(d.shape) <= 2]
                    lst = [idx] + others[:1]
                    column_stack(lst, new_common=op["new_common"], copy=op["copy"])
                else:
                    return None
        except Violation:
            raise
        except Exception:
            # failures of index methods are C06's business, not purity's
            self.count("index_method_raised_not_judged")
        return where


# ----------------------------------------------------------------------------- run / replay


def run(base_seed, idx, stats, opts):
    rng = core.rng_for(base_seed, "purity", idx)
    tier = opts.get("tier", "quick")
    sess = gen_session(rng, tier)
    log = core.EventLog()
    ps = PuritySession(sess, stats, log)
    usable = ps.usable()
    if not any(usable[c] for c in "ABCD"):
        stats.count("discarded_unsupported")
        return "discarded"
    stats.count("aggregate_specs_unsupported", sum(1 for c in "AB" for i in range(len(ps.aggs)) if i not in usable[c]))
    if usable["C"]:
        stats.count("sessions_with_cube_over_other_row_count")
    ops = gen_ops(rng, sess, usable, tier)
    done = []
    try:
        for op in ops:
            done.append(op)
            ps.execute(op)
    except Violation as v:
        v.extra["case"] = {"session": sess, "ops": [_explicit(o) for o in done]}
        raise
    stats.count("evaluations")
    stats.count("steps", len(ops))
    stats.count("cube_" + sess["cube"])
    if len(ops) >= 2:
        stats.see("nontrivial_sessions", core.digest_of([sess, [_explicit(o, False) for o in ops]]))
    stats.sample({"cube": sess["cube"], "N": sess["N"], "aggs": [a["f"] for a in sess["aggs"]],
                  "ops": [(o["op"], o.get("mode") or o.get("method") or o.get("cube")) for o in ops]})
    return log.hexdigest()


def _explicit(op, with_decisions=True):
    o = {k: v for k, v in op.items() if k != "decisions_recorded"}
    if with_decisions and "decisions_recorded" in op:
        o["decisions"] = op["decisions_recorded"]
    return o


def replay(case):
    ps = PuritySession(case["session"])
    for op in case["ops"]:
        ps.execute(dict(op))


def _fails_same(case, signature):
    try:
        replay(case)
    except Violation as v:
        return v.signature == signature
    except Exception:
        return False
    return False


def minimise(case, signature):
    best = {"session": case["session"], "ops": list(case["ops"])}
    if not _fails_same(best, signature):
        return case
    ops = core.ddmin(best["ops"], lambda sub: _fails_same({"session": best["session"], "ops": sub}, signature), max_tests=80)
    best["ops"] = ops
    for n, op in enumerate(best["ops"]):
        if op.get("decisions"):
            dec = core.ddmin(op["decisions"], lambda sub: _fails_same(
                {"session": best["session"], "ops": best["ops"][:n] + [dict(op, decisions=sub)] + best["ops"][n + 1:]},
                signature), max_tests=120)
            best["ops"] = best["ops"][:n] + [dict(op, decisions=dec)] + best["ops"][n + 1:]
        if op.get("op") == "calc" and len(op["aggs"]) > 1:
            sub = core.ddmin(op["aggs"], lambda s: bool(s) and _fails_same(
                {"session": best["session"], "ops": best["ops"][:n] + [dict(best["ops"][n], aggs=s)] + best["ops"][n + 1:]},
                signature), max_tests=20)
            best["ops"] = best["ops"][:n] + [dict(best["ops"][n], aggs=sub)] + best["ops"][n + 1:]
    return best


RULE = ("seeded sessions over shared objects: two dimension lists over the same 0-16 rows (1-8 and 1-6 sub-cubes), 2-4 fact "
        "variables (NaN-marked or (values, validity) with garbage incl. NaN under False validity, 1-3 columns), 1-2 weight "
        "variables (plain / strided / read-only / Fortran-ordered arrays), two cube objects of one kind plus a third cube over "
        "a DIFFERENT row count for the row-free aggregates, 2-5 aggregate objects; 2-8 calls: calculate(sub-list in random "
        "order, 15 % with the same object twice) "
        "serial / pooled under a seeded schedule / interrupted serially or pooled, cube shortcut methods with the shared "
        "arguments, the same aggregate objects on the other cubes, construction of further cubes, non-mutating index "
        "methods incl. from_array(values, counts, common, mapping); after every call all shared arguments are compared byte for byte with their snapshots, every result "
        "with the aggregate evaluated alone on fresh copies, and all earlier results with their own snapshots. "
        "evaluations = sessions; distinct non-trivial = distinct sessions with >= 2 calls")
