"""An independent INDX encoder/decoder: the "other tool" on the simulated disk.

Written from the class docstring of ``catii.indxio.IndxIO`` only -- ``struct`` and plain Python
integers, no NumPy dtype shared with the library:

    8-byte magic+version "INDX0001"
    buffer size (u64)          number of bytes that follow
    index dimensions (u8)
    index length (u32)
    index word size (u8: 1/2/4/8)   governs common value and index
    index common value
    index                      length x dimensions words, row by row
    rowid word size (u8: 1/2/4/8)   governs lengths and rowids
    rowid lengths              one per index row
    rowids                     concatenated in index-row order
All integers unsigned little-endian.
"""
import struct

FMT = {1: "B", 2: "H", 4: "L", 8: "Q"}


def narrowest_word(maxval):
    if maxval < 1 << 8:
        return 1
    if maxval < 1 << 16:
        return 2
    if maxval < 1 << 32:
        return 4
    if maxval < 1 << 64:
        return 8
    raise ValueError("value does not fit an INDX word")


def payload_size(n_entries, dims, index_word, rowid_word, total_rowids):
    return 1 + 4 + 1 + index_word + n_entries * dims * index_word + 1 + n_entries * rowid_word + total_rowids * rowid_word


def encode(entries, common, index_word=None, rowid_word=4):
    """entries: list of (coords tuple, list of row ids) in file order."""
    entries = list(entries)
    dims = len(entries[0][0]) if entries else 0
    biggest = max([common] + [c for coords, _ in entries for c in coords])
    if index_word is None:
        index_word = narrowest_word(biggest)
    elif narrowest_word(biggest) > index_word:
        raise ValueError("index word too narrow")
    iw, rw = FMT[index_word], FMT[rowid_word]
    body = [struct.pack("<BLB", dims, len(entries), index_word), struct.pack("<" + iw, common)]
    for coords, _ in entries:
        body.append(struct.pack("<%d%s" % (dims, iw), *coords))
    body.append(struct.pack("<B", rowid_word))
    for _, rowids in entries:
        body.append(struct.pack("<" + rw, len(rowids)))
    for _, rowids in entries:
        body.append(struct.pack("<%d%s" % (len(rowids), rw), *rowids))
    payload = b"".join(body)
    return b"INDX" + b"0001" + struct.pack("<Q", len(payload)) + payload


class BadFile(Exception):
    pass


def decode(data):
    """Return (entries list [(coords, rowids list)], common, index_word, rowid_word)."""
    if len(data) < 16 or data[:4] != b"INDX" or data[4:8] != b"0001":
        raise BadFile("header")
    (size,) = struct.unpack_from("<Q", data, 8)
    if len(data) != 16 + size:
        raise BadFile("size word %d but payload is %d bytes" % (size, len(data) - 16))
    off = 16
    dims, length, index_word = struct.unpack_from("<BLB", data, off)
    off += 6
    if index_word not in FMT:
        raise BadFile("index word size %r" % index_word)
    iw = FMT[index_word]
    (common,) = struct.unpack_from("<" + iw, data, off)
    off += index_word
    coords = []
    for _ in range(length):
        coords.append(tuple(struct.unpack_from("<%d%s" % (dims, iw), data, off)))
        off += dims * index_word
    (rowid_word,) = struct.unpack_from("<B", data, off)
    off += 1
    if rowid_word not in FMT:
        raise BadFile("rowid word size %r" % rowid_word)
    rw = FMT[rowid_word]
    lengths = struct.unpack_from("<%d%s" % (length, rw), data, off)
    off += length * rowid_word
    out = []
    for c, n in zip(coords, lengths):
        out.append((c, list(struct.unpack_from("<%d%s" % (n, rw), data, off))))
        off += n * rowid_word
    if off != len(data):
        raise BadFile("trailing bytes: parsed %d of %d" % (off, len(data)))
    return out, common, index_word, rowid_word


def regions(data_len, n_entries, dims, index_word, rowid_word):
    """Name the layout region of each byte offset (for cut-position reach metrics)."""
    bounds = [
        ("magic", 4), ("version", 4), ("size_word", 8), ("header", 6), ("common", index_word),
        ("coordinates", n_entries * dims * index_word), ("rowid_word", 1),
        ("lengths", n_entries * rowid_word),
    ]
    out = []
    pos = 0
    for name, n in bounds:
        out.append((name, pos, pos + n))
        pos += n
    out.append(("rowids", pos, data_len))
    return out


def region_of(k, regs, data_len):
    if k == data_len - 1:
        return "last_byte"
    for name, lo, hi in regs:
        if lo <= k < hi:
            return name
    return "rowids"
