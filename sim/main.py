"""./check <ID> [--tier quick|thorough] [--replay FILE] [--digest N] [--runs N]

Exit codes: 0 property held on everything explored; 1 violation (prints
``VIOLATION property=<id> replay=<path>``); 2 harness error (never a pass, never a violation).
"""
import argparse
import os
import subprocess
import sys
import time
import traceback

from . import build, core


def registry():
    """Property id -> adapter.  Imported lazily so that patches precede ``import catii``."""
    from . import adapters

    return adapters.REGISTRY


def _fresh_digest(prop, n, seed, tier, hashseed, workers):
    env = dict(os.environ)
    env.pop("VERIF_CATII_TREE", None)
    env["PYTHONHASHSEED"] = str(hashseed)
    env["VERIF_SEED"] = str(seed)
    env["VERIF_TIER"] = tier
    env["VERIF_WORKERS"] = str(workers)
    p = subprocess.run(
        [sys.executable, "-m", "sim.main", prop, "--digest", str(n)],
        cwd=core.VERIF, env=env, stdout=subprocess.PIPE, stderr=subprocess.PIPE, timeout=1800,
    )
    out = p.stdout.decode()
    for line in out.splitlines():
        if line.startswith("DIGEST "):
            return line.split()[1]
    raise core.HarnessError("fresh-interpreter digest run failed:\n" + out + p.stderr.decode())


def determinism_selftest(adapter, seed, tier, n):
    """Same seeds, different worker counts / interpreters / hash seeds => same event logs."""
    opts = adapter.opts(tier)
    _, _, d_serial = core.farm(adapter.run, seed, n, opts, workers=1, batch=1)
    _, _, d_par = core.farm(adapter.run, seed, n, opts, workers=4, batch=1)
    other = "1" if os.environ.get("PYTHONHASHSEED", "0") != "1" else "2"
    d_fresh = _fresh_digest(adapter.prop, n, seed, tier, other, 3)
    ok = d_serial == d_par == d_fresh
    return {
        "runs": n,
        "in_process_serial": d_serial,
        "forked_4_workers": d_par,
        "fresh_interpreter_PYTHONHASHSEED_%s_3_workers" % other: d_fresh,
        "identical": ok,
    }


def regression_replays(adapter):
    """Replay findings/*.json of this property; fixed findings must not reproduce."""
    import glob

    out = {"replayed": 0, "violations": []}
    for path in sorted(glob.glob(os.path.join(core.VERIF, "findings", "*.json"))):
        doc = core.read_replay(path)
        if doc.get("property") != adapter.prop:
            continue
        out["replayed"] += 1
        try:
            adapter.replay(doc["case"])
        except core.Violation as v:
            listed = core.match_known(adapter.prop, v.signature)
            if listed is None:
                out["violations"].append((path, v))
    return out


def handle_violations(adapter, seed, violations, findings, tier="quick"):
    """Classify, minimise, write and confirm replay files.  Returns (n_unlisted, lines)."""
    lines = []
    by_sig = {}
    spare = {}
    for idx, vj in violations:
        if vj["signature"] in by_sig:
            spare.setdefault(vj["signature"], []).append((idx, vj))
        else:
            by_sig[vj["signature"]] = (idx, vj)
    unlisted = 0
    known_seen = set()
    not_reproduced = []
    for sig, (idx, vj) in sorted(by_sig.items(), key=lambda kv: kv[1][0]):
        known = core.match_known(adapter.prop, sig, findings)
        if known is not None:
            if known["id"] not in known_seen:
                known_seen.add(known["id"])
                lines.append("KNOWN-FINDING: property=%s %s [%s] (first seen at run %d: %s)"
                             % (adapter.prop, known["id"], known["what"], idx, vj["message"][:200]))
            continue
        unlisted += 1
        if unlisted > 6:
            continue
        case = vj["extra"].pop("case", None)
        batch_lo = vj.get("batch_lo", idx)
        small = case
        note = None
        t0 = time.time()
        try:
            if isinstance(case, dict) and "rerun" in case:
                raise RuntimeError("run-range case: nothing to minimise in-process")
            core.start_minimise_clock()
            small = adapter.minimise(case, sig)
            # the minimised case must still fail the same way, in this process ...
            try:
                adapter.replay(small)
                small, note = case, "minimised case no longer failed; original kept"
            except core.Violation as v2:
                if v2.signature != sig:
                    small, note = case, "minimised case changed class; original kept"
                else:
                    vj = dict(v2.to_json())
                    vj["extra"].pop("case", None)
        except Exception:
            small, note = case, "minimiser error: " + traceback.format_exc(limit=3)
        path = core.write_replay(adapter.prop, seed, idx, small, vj,
                                 minimised_from={"original_size": adapter.size(case),
                                                 "minimised_size": adapter.size(small),
                                                 "seconds": round(time.time() - t0, 2), "note": note})
        # ... and in a fresh process
        ok, out = core.confirm_replay_in_fresh_process(adapter.prop, path, sig)
        if not ok:
            # The case alone does not fail in a fresh process: the library kept state from EARLIER runs
            # of the same (hermetic) batch.  The replay file then names the run range to re-execute.
            lo = batch_lo
            rerun = {"rerun": {"verif_seed": seed, "tier": tier, "lo": lo, "hi": idx,
                               "why": "the failing case passes on its own in a fresh process; it needs the state left "
                                      "behind by runs %d..%d executed before it in the same process" % (lo, idx - 1),
                               "failing_case": small}}
            path = core.write_replay(adapter.prop, seed, idx, rerun, vj, minimised_from={"note": "run-range replay"})
            ok2, out2 = core.confirm_replay_in_fresh_process(adapter.prop, path, sig)
            if not ok2:
                # Neither the case nor its batch prefix fails again in a fresh process: the failure depended on
                # something outside the simulator's control (e.g. the address of a freed object).  It is NOT
                # reported as a violation; other violating runs are still examined.
                not_reproduced.append("NOT-REPRODUCED property=%s signature=%s run_index=%d (seen once, not on replay)"
                                      % (adapter.prop, sig, idx))
                unlisted -= 1
                continue
            lines.append("note: this violation needs state left by earlier runs in the same process; replay re-executes "
                         "runs %d..%d" % (lo, idx))
        lines.append("violation: %s" % vj["message"][:600])
        lines.append("VIOLATION property=%s replay=%s signature=%s run_index=%d seed=%d"
                     % (adapter.prop, path, sig, idx, seed))
    if unlisted > 6:
        lines.append("(%d further distinct violation signatures not minimised)" % (unlisted - 6))
    if not_reproduced:
        lines.extend(not_reproduced)
        if unlisted == 0:
            # every failure seen was irreproducible: that is a defect of the run, not a verdict
            raise core.HarnessError("\n".join(lines))
    return unlisted, lines


def main(argv=None):
    ap = argparse.ArgumentParser(prog="check")
    ap.add_argument("prop")
    ap.add_argument("--tier", default=None)
    ap.add_argument("--replay", default=None)
    ap.add_argument("--digest", type=int, default=None, help="print the event-log digest of the first N runs")
    ap.add_argument("--runs", type=int, default=None)
    ap.add_argument("--no-selftest", action="store_true")
    args = ap.parse_args(argv)

    t0 = time.time()
    tier = args.tier or core.env_tier()
    seed = core.env_seed()
    try:
        build.ensure_catii()
        reg = registry()
        if args.prop not in reg:
            print("unknown or not-applicable property %s (claimed: %s)" % (args.prop, " ".join(sorted(reg))))
            return core.EXIT_HARNESS
        adapter = reg[args.prop]
        adapter.prepare()

        if args.replay:
            doc = core.read_replay(args.replay)
            if isinstance(doc.get("case"), dict) and "rerun" in doc["case"]:
                rr = doc["case"]["rerun"]
                found = core.rerun_range(adapter.run, rr["verif_seed"], rr["lo"], rr["hi"], adapter.opts(rr.get("tier", "quick")))
                hit = [vj for i, vj in found if i == rr["hi"]]
                if hit:
                    print("violation: %s" % hit[0]["message"][:600])
                    print("VIOLATION property=%s replay=%s signature=%s" % (adapter.prop, args.replay, hit[0]["signature"]))
                    return core.EXIT_VIOLATION
                print("replay of %s (runs %d..%d): no violation at run %d" % (args.replay, rr["lo"], rr["hi"], rr["hi"]))
                return core.EXIT_OK
            try:
                adapter.replay(doc["case"])
            except core.Violation as v:
                print("violation: %s" % v.message[:600])
                print("VIOLATION property=%s replay=%s signature=%s" % (adapter.prop, args.replay, v.signature))
                return core.EXIT_VIOLATION
            print("replay of %s: no violation" % args.replay)
            return core.EXIT_OK

        if args.digest is not None:
            _, viol, d = core.farm(adapter.run, seed, args.digest, adapter.opts(tier), batch=1)
            print("DIGEST %s" % d)
            return core.EXIT_OK

        n_runs = args.runs or int(os.environ.get("VERIF_RUNS", "0")) or adapter.n_runs(tier)
        print("check %s tier=%s seed=%d runs=%d source=%s" % (adapter.prop, tier, seed, n_runs, build.source_digest()))
        sys.stdout.flush()

        selftest = None
        if not args.no_selftest:
            selftest = determinism_selftest(adapter, seed, tier, adapter.selftest_runs(tier))
            if not selftest["identical"]:
                print("HARNESS-ERROR: determinism self-test failed: %r" % (selftest,))
                return core.EXIT_HARNESS
        extra_self = adapter.extra_selftests(tier)

        # regression: every committed finding replay of this property (all repaired) must stay quiet
        regress = regression_replays(adapter)
        if regress["violations"]:
            for path, v in regress["violations"]:
                print("violation: %s" % v.message[:600])
                print("VIOLATION property=%s replay=%s signature=%s (a repaired finding has returned)"
                      % (adapter.prop, path, v.signature))
            return core.EXIT_VIOLATION

        stats, violations, logd = core.farm(adapter.run, seed, n_runs, adapter.opts(tier))
        findings = core.load_known_findings()
        unlisted, lines = handle_violations(adapter, seed, violations, findings, tier)
        wall = time.time() - t0
        cov = adapter.coverage(stats, tier, n_runs)
        cov.update(core.stats_to_coverage(stats))
        cov["event_log_digest"] = logd
        cov["determinism_selftest"] = selftest
        cov["regression_replays_of_fixed_findings"] = regress["replayed"]
        if extra_self:
            cov["selftests"] = extra_self
        cov["runs_per_hour"] = int(n_runs / max(wall, 1e-6) * 3600)
        cov["seeds"] = {"VERIF_SEED": seed, "run_indexes": [0, n_runs - 1],
                        "derivation": "blake2b(VERIF_SEED|engine|run_index)"}
        cov["components"] = adapter.components
        cov["source_digest"] = build.source_digest()
        core.write_evidence(adapter.prop, tier, seed, adapter.level, cov, adapter.assumptions, wall,
                            len(violations) and int(stats.counters.get("violating_runs", 0)))
        for line in lines:
            print(line)
        missing = adapter.reach_failures(stats, tier)
        if missing and not violations:
            print("HARNESS-ERROR: reach probes stuck at zero: %s" % ", ".join(missing))
            return core.EXIT_HARNESS
        print("%s: %d runs, %d violating runs, %d unlisted signatures, %.1fs"
              % (adapter.prop, n_runs, stats.counters.get("violating_runs", 0), unlisted, wall))
        return core.EXIT_VIOLATION if unlisted else core.EXIT_OK
    except core.HarnessError as e:
        print("HARNESS-ERROR: %s" % e)
        return core.EXIT_HARNESS
    except Exception:
        print("HARNESS-ERROR: unexpected exception\n%s" % traceback.format_exc())
        return core.EXIT_HARNESS


if __name__ == "__main__":
    sys.exit(main())
