"""Reference models for the history engine.

* ``decode``      the harness's own N-D decoder of an iindex (does not use ``to_array``)
* ``entries_of``  the independent encoder: dense array + common -> entries dict
* ``well_formed`` everything C07 lists, i.e. ``validate(True)`` plus what it does not check
* ``snapshot``    byte-exact picture of an operand, for "operands are left unchanged"
"""
import numpy

U32 = numpy.dtype(numpy.uint32)


class Malformed(Exception):
    def __init__(self, vclass, message):
        Exception.__init__(self, message)
        self.vclass = vclass


def plain_items(idx):
    """(key, rowids) pairs of the stored entries (never the forced common)."""
    return list(dict.items(idx))


def decode(idx):
    """Dense int64 array an index stands for.  Raises Malformed if it cannot be decoded."""
    shape = tuple(idx.shape)
    out = numpy.full(shape, idx.common, dtype=numpy.int64)
    for key, rowids in plain_items(idx):
        try:
            r = numpy.asarray(rowids).astype(numpy.int64)
            out[(r,) + tuple(key[1:])] = key[0]
        except Exception as e:  # out-of-range rows / coordinates, wrong arity ...
            raise Malformed("undecodable-entry", "entry %r: %r (%s)" % (key, rowids, e))
    return out


def entries_of(a, common):
    """Independent encoder: {(value, col, ...): sorted uint32 row ids} for every value != common."""
    a = numpy.asarray(a)
    out = {}
    if a.ndim == 1:
        cols = [()]
    else:
        cols = [c for c in numpy.ndindex(*a.shape[1:])]
    for c in cols:
        col = a[(slice(None),) + c]
        for v in sorted(set(col.tolist())):
            if v == common:
                continue
            rows = numpy.nonzero(col == v)[0]
            out[(int(v),) + tuple(int(x) for x in c)] = rows.astype(U32)
    return out


class MissingDict(dict):
    """A dict subclass with a default for missing keys (only reached through subscription, never through .get)."""

    def __missing__(self, key):
        self[key] = 0
        return 0


def make_mapping(pairs, kind):
    """The caller's mapping in one of the kinds a caller may legitimately hold."""
    import collections

    d = dict(map(tuple, pairs))
    if kind == "defaultdict":
        out = collections.defaultdict(int)
        out.update(d)
        return out
    if kind == "missing":
        return MissingDict(d)
    if kind == "ordered":
        return collections.OrderedDict(d)
    return d


MAPPING_KINDS = ("dict", "dict", "dict", "defaultdict", "missing", "ordered")


def strided(entries):
    """The same entries held in non-contiguous row-id arrays (every other element of a bigger one)."""
    out = {}
    for k, v in entries.items():
        big = numpy.full(len(v) * 2, 0xFFFFFFFF, dtype=U32)
        big[::2] = v
        out[k] = big[::2]
    return out


def most_frequent_ok(a, common):
    """True iff `common` occurs at least as often in a as every other value (empty: exempt)."""
    a = numpy.asarray(a)
    if a.size == 0:
        return True
    vals, counts = numpy.unique(a, return_counts=True)
    best = counts.max()
    mine = counts[vals == common]
    return (mine[0] if len(mine) else 0) == best


def well_formed(idx):
    """Raise Malformed unless idx satisfies every well-formedness condition of C07."""
    shape = idx.shape
    if type(shape) is not tuple or any(type(s) is not int or s < 0 for s in shape) or len(shape) < 1:
        raise Malformed("bad-shape", "shape %r" % (shape,))
    nrows = shape[0]
    for key, rowids in plain_items(idx):
        if type(key) is not tuple or len(key) != len(shape):
            raise Malformed("bad-key-arity", "key %r for shape %r" % (key, shape))
        for c in key:
            if isinstance(c, numpy.generic) or not isinstance(c, int) or isinstance(c, bool):
                raise Malformed("bad-coordinate-type", "key %r has a %s" % (key, type(c).__name__))
        for axis, c in enumerate(key[1:], 1):
            if not (0 <= c < shape[axis]):
                raise Malformed("coordinate-out-of-shape", "key %r outside shape %r" % (key, shape))
        if key[0] == idx.common:
            raise Malformed("common-listed", "key %r lists the common value %r" % (key, idx.common))
        if not isinstance(rowids, numpy.ndarray) or rowids.dtype != U32 or rowids.ndim != 1:
            raise Malformed("bad-rowid-array", "key %r: %r" % (key, rowids))
        if len(rowids) == 0:
            raise Malformed("empty-entry", "key %r has no row ids" % (key,))
        r = rowids.astype(numpy.int64)
        if len(r) > 1 and not bool(numpy.all(r[1:] > r[:-1])):
            raise Malformed("rowids-not-strictly-increasing", "key %r: %r" % (key, rowids.tolist()[:12]))
        if int(r[-1]) >= nrows:
            raise Malformed("rowid-out-of-range", "key %r: row %d of %d" % (key, int(r[-1]), nrows))
    # exclusivity: no row under two values of the same column
    seen = {}
    for key, rowids in plain_items(idx):
        col = key[1:]
        bucket = seen.setdefault(col, {})
        for r in rowids.tolist():
            if r in bucket and bucket[r] != key[0]:
                raise Malformed("row-listed-twice", "row %d of column %r under %r and %r" % (r, col, bucket[r], key[0]))
            bucket[r] = key[0]
    try:
        idx.validate(True)
    except Exception as e:
        raise Malformed("validate-raises", "validate(True): %r" % (e,))
    # derived quantities never include a category that occurs nowhere
    dense = decode(idx)
    present = set(dense.ravel().tolist())
    try:
        absc = set(idx.abscissae)
        spars = idx.sparsity
    except Exception as e:
        raise Malformed("derived-property-raises", repr(e))
    if absc != present:
        raise Malformed("abscissae-wrong", "abscissae %r but values present %r" % (sorted(absc), sorted(present)))
    if dense.size:
        want = 100.0 * int((dense == idx.common).sum()) / dense.size
        if abs(spars - want) > 1e-9:
            raise Malformed("sparsity-wrong", "sparsity %r, dense says %r" % (spars, want))
    elif spars != 0:
        raise Malformed("sparsity-wrong", "sparsity %r for an empty index" % (spars,))


def snapshot(obj):
    """Byte-exact, hashable picture of an operand (index, dict of arrays, array, dict, list)."""
    import catii

    if isinstance(obj, catii.iindex):
        return ("iindex", obj.shape, repr(obj.common), type(obj.common).__name__,
                tuple((k, v.dtype.str, v.shape, v.tobytes()) for k, v in dict.items(obj)))
    if isinstance(obj, numpy.ndarray):
        return ("nd", obj.dtype.str, obj.shape, obj.tobytes())
    if isinstance(obj, dict):
        return ("dict", tuple((repr(k), snapshot(v)) for k, v in obj.items()))
    if isinstance(obj, (list, tuple)):
        return (type(obj).__name__, tuple(snapshot(x) for x in obj))
    return ("py", repr(obj))


def arrays_of(idx):
    return [v for _, v in plain_items(idx)]


def shares_storage(a_idx, b_idx):
    for x in arrays_of(a_idx):
        for y in arrays_of(b_idx):
            if x.size and y.size and numpy.shares_memory(x, y):
                return True
    return False
