"""Cross-engine generators."""


def storage_case_from_generated_index(rng):
    from .props import hist

    return hist.storage_case_from_history(rng)
