def storage_case_from_generated_index(rng):
    return None
