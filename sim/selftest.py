"""Self-tests of the simulator itself (results go into the evidence)."""


def stub_fidelity():
    """SimPool vs the real ThreadPool on side-effect-free workloads: same results, same chunk
    grouping, same exception surfacing."""
    import importlib
    import multiprocessing.pool as mpp

    from . import sched

    real_cls = None
    for name in ("ThreadPool",):
        cand = getattr(importlib.import_module("multiprocessing.pool"), name)
        if cand is not sched.SimPool:
            real_cls = cand
    if real_cls is None:
        # the module attribute is patched; rebuild the real class from the Pool base
        class RealThreadPool(mpp.Pool):
            _wrap_exception = False

            @staticmethod
            def Process(ctx, *args, **kwds):
                from multiprocessing.dummy import Process

                return Process(*args, **kwds)

            def __init__(self, processes=None, initializer=None, initargs=()):
                mpp.Pool.__init__(self, processes, initializer, initargs)

            def _setup_queues(self):
                import queue

                self._inqueue = queue.SimpleQueue()
                self._outqueue = queue.SimpleQueue()
                self._quick_put = self._inqueue.put
                self._quick_get = self._outqueue.get

            def _get_sentinels(self):
                return [self._change_notifier._reader]

            @staticmethod
            def _get_worker_sentinels(workers):
                return []

            @staticmethod
            def _help_stuff_finish(inqueue, task_handler, size):
                try:
                    while True:
                        inqueue.get(block=False)
                except Exception:
                    pass
                for i in range(size):
                    inqueue.put(None)

            def _wait_for_updates(self, sentinels, change_notifier, timeout):
                import time

                time.sleep(timeout)

        real_cls = RealThreadPool

    class Boom(Exception):
        pass

    class Stop(StopIteration):
        pass

    checked = 0
    for n_items in (0, 1, 3, 7, 16, 33):
        for procs in (1, 2, 4, 7):
          for chunksize in (None, None, 0, 1, 3, 50):
           for stop_kind in (False, True):
            for fail_at in (None, 0, n_items // 2, n_items - 1):
                if fail_at is not None and not (0 <= fail_at < n_items):
                    continue
                if chunksize is not None and procs not in (2, 7):
                    continue
                if stop_kind and (fail_at is None or procs != 1):
                    continue  # completion order matters for the shape of a cut-short result: one worker only
                seen_real, seen_sim = [], []

                def make(seen):
                    def f(x):
                        seen.append(x)
                        if x == fail_at:
                            raise (Stop(x) if stop_kind else Boom(x))
                        return x * x

                    return f

                def outcome(pool_cls, seen):
                    pool = pool_cls(procs)
                    try:
                        try:
                            return ("ok", pool.map(make(seen), iter(range(n_items)), chunksize))
                        except Boom as e:
                            return ("boom", e.args)
                    finally:
                        pool.close()
                        pool.join()

                r = outcome(real_cls, seen_real)
                import random

                with sched.Session({"strategy": "rtc"}, rng=random.Random(n_items * 100 + procs)):
                    s = outcome(sched.SimPool, seen_sim)
                if r != s:
                    raise AssertionError("stub fidelity: real %r vs sim %r (n=%d p=%d chunksize=%r fail=%r)" % (r, s, n_items, procs, chunksize, fail_at))
                # chunk-abort semantics: the set of executed items is the same
                if sorted(seen_real) != sorted(seen_sim):
                    raise AssertionError("stub fidelity: executed items differ: real %r sim %r (n=%d p=%d fail=%r)"
                                         % (sorted(seen_real), sorted(seen_sim), n_items, procs, fail_at))
                checked += 1
    # imap / imap_unordered: results of a fully consumed iteration, and where a failure surfaces
    import random

    lazy_checked = 0
    for n_items in (0, 1, 5, 12):
        for procs in (1, 3):
            for chunksize in (1, 2, 5):
                for fail_at in (None, 0, n_items // 2):
                    if fail_at is not None and not (0 <= fail_at < n_items):
                        continue

                    def g(x):
                        if x == fail_at:
                            raise Boom(x)
                        return x + 100

                    def consume(pool_cls, method):
                        pool = pool_cls(procs)
                        got = []
                        try:
                            try:
                                for r in getattr(pool, method)(g, range(n_items), chunksize):
                                    got.append(r)
                                return ("ok", got if method == "imap" else sorted(got))
                            except Boom as e:
                                # ordered imap: everything before the failing CHUNK was delivered
                                return ("boom", e.args, got if method == "imap" else None)
                        finally:
                            pool.close()
                            pool.join()

                    for method in ("imap", "imap_unordered"):
                        r = consume(real_cls, method)
                        with sched.Session({"strategy": "rtc"}, rng=random.Random(n_items + procs)) as sess:
                            s_ = consume(sched.SimPool, method)
                        sched.ACTIVE = sess
                        try:
                            sess.finish()
                        finally:
                            sched.ACTIVE = None
                        if r != s_:
                            raise AssertionError("stub fidelity (%s): real %r vs sim %r (n=%d p=%d cs=%d fail=%r)"
                                                 % (method, r, s_, n_items, procs, chunksize, fail_at))
                        lazy_checked += 1
    return {"configurations_compared_with_real_ThreadPool": checked, "lazy_map_configurations": lazy_checked, "agree": True}
