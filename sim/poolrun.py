"""Glue between the scheduler and catii's cubes: installation, engagement, one pooled evaluation."""
import os
import random

from . import build, core, cubes, sched

_ready = False
CLOCK = sched.SimClock()


def prepare():
    """Install the pool stub and the clock BEFORE catii is imported, then import catii."""
    global _ready
    if _ready:
        return
    tree = build.ensure_catii()
    import sys

    if "catii" in sys.modules:
        raise core.HarnessError("catii was imported before the scheduler was installed")
    sched.install(os.path.join(os.path.realpath(tree), "catii") + os.sep)
    sched._PACKAGE_DIRS.append(os.path.join(tree, "catii") + os.sep)
    build.import_catii()
    import catii.ccubes
    import catii.ffuncs
    import catii.xcubes

    catii.xcubes.xcube.pool_class = sched.SimPool
    for mod in (catii.xcubes, catii.ffuncs, catii.ccubes):
        if hasattr(mod, "time"):
            mod.time = CLOCK
    _ready = True


def engage(w, cube, poolsize):
    """Turn pooling on through the seams the code has (flag, or the real threshold logic)."""
    import catii.ccubes
    import catii.xcubes

    cube.poolsize = poolsize
    if w.get("engage") == "threshold" and w["N"] >= 1 and cubes.scaffold_size(w) > 2:
        mod = catii.ccubes if w["cube"] == "ccube" else catii.xcubes
        if hasattr(mod, "BIG_REGIONS"):  # the seam may be refactored away; the flag below always works
            old = mod.BIG_REGIONS
            mod.BIG_REGIONS = 1
            try:
                probe = cubes.build_cube(w)
            finally:
                mod.BIG_REGIONS = old
            if getattr(probe, "parallel", False):
                probe.poolsize = poolsize
                return probe, "threshold"
    cube.parallel = True
    return cube, "flag"


class PooledOutcome:
    __slots__ = ("out", "exc", "session", "how", "pending")


def pooled_eval(w, poolsize, spec, rng=None, script=None, step_cap=5_000_000, cube=None, aggs=None,
                check_interrupt=None):
    """One evaluation of workload w with the pool engaged under one schedule."""
    if cube is None:
        cube = cubes.build_cube(w)
        cube, how = engage(w, cube, poolsize)
    else:
        cube.poolsize = poolsize
        if not getattr(cube, "parallel", False):
            cube.parallel = True
        how = "given"
    if aggs is None:
        aggs = cubes.build_aggs(w)
    if check_interrupt is not None:
        cube.check_interrupt = check_interrupt
    res = PooledOutcome()
    res.how = how
    res.out = res.exc = None
    sess = sched.Session(spec, rng=rng, script=script, step_cap=step_cap)
    res.session = sess
    sched.drain_pending()
    with sess:
        try:
            res.out = cubes.evaluate(cube, aggs)
        except sched.HarnessFault as e:
            raise core.HarnessError("scheduler: %s" % e)
        except Exception as e:
            res.exc = e
    res.pending = sched.drain_pending()
    if sess.lazy:
        # lazily scheduled work the evaluation left behind: run it now (its side effects are real) and count it
        with _reactivated(sess):
            res.pending += sess.finish()
    alive = sess.live_sim_threads()
    if alive:
        raise core.HarnessError("simulated threads still alive after the evaluation: %r" % alive)
    return res


class _reactivated:
    def __init__(self, sess):
        self.sess = sess

    def __enter__(self):
        sched.ACTIVE = self.sess

    def __exit__(self, *exc):
        sched.ACTIVE = None
        sched._mon.set_events(sched.TOOL_ID, 0)
        return False


def sched_rng(seed):
    return random.Random(seed)
