"""Property id -> adapter objects used by sim.main (one engine may serve several ids)."""
from . import core


class Adapter:
    prop = None
    level = "exploration"
    engine = None
    assumptions = []
    components = {}
    RUNS = {"quick": 1000, "thorough": 10000}
    SELFTEST = {"quick": 8, "thorough": 24}
    required_probes = ()

    def prepare(self):
        from . import build

        build.import_catii()

    def opts(self, tier):
        return {"tier": tier, "prop": self.prop}

    def n_runs(self, tier):
        return self.RUNS[tier]

    def selftest_runs(self, tier):
        return self.SELFTEST[tier]

    def extra_selftests(self, tier):
        return None

    def size(self, case):
        return len(core.dumps(case)) if case is not None else 0

    def reach_failures(self, stats, tier):
        return [p for p in self.required_probes if not stats.counters.get(p)]


# ------------------------------------------------------------------------------ disk engine

DISK_COMPONENTS = {
    "real": ["IndxIO.save", "IndxIO.load", "numpy.ndarray.tofile", "mmap", "kernel file layer (memfd)",
             "RLIMIT_FSIZE enforcement", "fit_dtype", "iindex (index-derived cases)"],
    "stub": ["file object handed to save (logging proxy over io.FileIO/BufferedWriter/BufferedRandom)",
             "os module as seen from catii.indxio, if it uses one (call-counting proxy that can fail the device)",
             "multiprocessing.pool.ThreadPool, if save/load start one (SimPool under a seeded session)",
             "row-id arrays of the >=2^30-row-id cases (length-only stand-ins)"],
    "independent_party": ["sim/refcodec.py (struct-based INDX codec written from the format description)"],
}


class StorageAdapter(Adapter):
    engine = "disk"
    components = DISK_COMPONENTS

    def prepare(self):
        # the pool stub is installed here too (before catii is imported), so that a save() or load() that starts
        # worker threads is scheduled by the simulator, and the system-call seam is put under catii.indxio
        from . import build, osproxy, sched
        import os
        import sys

        tree = build.ensure_catii()
        if "catii" not in sys.modules:
            sched.install(os.path.join(os.path.realpath(tree), "catii") + os.sep)
        build.import_catii()
        import catii.indxio

        osproxy.install_into(catii.indxio)

    def __init__(self, prop, level, runs, probes=()):
        self.prop = prop
        self.level = level
        self.RUNS = runs
        self.required_probes = probes

    @property
    def run(self):
        from .props import storage

        return {"C10": storage.c10_run, "C11": storage.c11_run, "C12": storage.c12_run}[self.prop]

    def replay(self, case):
        from .props import storage

        storage.replay(self.prop, case)

    def minimise(self, case, signature):
        from .props import storage

        return storage.minimise(self.prop, case, signature)

    def coverage(self, stats, tier, n_runs):
        from .props import storage

        cov = {
            "evaluations": int(stats.counters.get("evaluations", 0)),
            "distinct_nontrivial": len(stats.distinct.get("nontrivial_files", ())),
            "rule": storage.RULES[self.prop],
            "samples": stats.samples[:4],
            "exhaustive": False,
        }
        if self.prop == "C12":
            c = stats.counters
            cov["faults_injected"] = {
                "crash_at_byte": c.get("fault_crash_at_byte", 0),
                "disk_full_at_byte": c.get("fault_disk_full", 0),
                "disk_full_where_save_raised": c.get("disk_full_save_raised", 0),
                "disk_full_where_save_returned_normally": c.get("disk_full_save_returned_normally", 0),
                "io_error_at_call_during_save": c.get("fault_io_error_during_save", 0),
                "torn_in_place_after_load": c.get("fault_torn_in_place_after_load", 0),
                "resaved_in_place_and_cut": c.get("fault_resaved_in_place_and_cut", 0),
                "crash_sampled_in_big_files": c.get("fault_crash_sampled_in_big_file", 0),
            }
            cov["cut_points_per_file_exhaustive"] = True
            cov["simulated_bytes_written"] = c.get("file_bytes", 0)
        return cov

    @property
    def assumptions(self):
        base = [
            "the file-object seam sees every write of save(): guarded by replaying the reconstructed write log "
            "against the final file (mismatch = harness error)",
            "memfd + RLIMIT_FSIZE behave like a regular file on a full disk (EFBIG at byte k)",
        ]
        if self.prop == "C12":
            base.append("crash model is the property's own: the byte stream is cut at an arbitrary byte; "
                        "reordered or zero-filled pages are not injected")
        if self.prop == "C11":
            base.append("sim/refcodec.py is a faithful reading of the IndxIO class docstring")
        return base


HIST_COMPONENTS = {
    "real": ["iindex (constructor, from_array, shift_common, append, update, filtered, sliced, slices1d, reindexed, "
             "collapsed, copy, union/intersection/difference_update, get/items/to_dict/common_rowids, validate, "
             "abscissae, sparsity, __eq__/__ne__)", "column_stack", "set_operations kernels", "IndxIO.save/load",
             "ccube.count (well-formedness consequence)"],
    "stub": ["file object handed to IndxIO.save (logging proxy on a memfd)"],
    "reference_model": ["dense int64 NumPy array per live index (sim/model.py)"],
}


class HistAdapter(Adapter):
    engine = "hist"
    level = "exploration"
    components = HIST_COMPONENTS
    RUNS = {"quick": 25000, "thorough": 800000}
    assumptions = [
        "NumPy's concatenate/column_stack/take/boolean selection are the reference semantics",
        "arguments are kept inside each operation's documented domain by the generator's guards",
        "from_array's content and failures are C01's business: the model adopts what it returns, only its "
        "well-formedness (C07) and chosen common (C15) are judged",
    ]

    def __init__(self, prop, probes=()):
        self.prop = prop
        self.required_probes = probes

    @property
    def run(self):
        from .props import hist

        return hist.RUNS[self.prop]

    def replay(self, case):
        from .props import hist

        hist.replay(self.prop, case)

    def minimise(self, case, signature):
        from .props import hist

        return hist.minimise(self.prop, case, signature)

    def size(self, case):
        return len(case["history"]) if case else 0

    def coverage(self, stats, tier, n_runs):
        from .props import hist

        return {
            "evaluations": int(stats.counters.get("evaluations", 0)),
            "distinct_nontrivial": len(stats.distinct.get("nontrivial_histories", ())),
            "rule": hist.RULE,
            "samples": stats.samples[:3],
            "exhaustive": False,
            "steps_executed": int(stats.counters.get("steps", 0)),
            "distinct_operation_sequences": len(stats.distinct.get("op_sequences", ())),
            "faults_injected": {"persist_crash_then_reload": stats.counters.get("fault_persist_crash", 0)},
        }


HIST_PROBES = (
    "probe_append_empty_operand", "probe_append_operand_common_has_no_rows", "probe_append_same_common",
    "probe_append_different_common", "probe_update_writes_common", "probe_update_deleted_whole_entry",
    "probe_reindexed_merges_values", "probe_reindexed_onto_common", "probe_reindexed_partial_mapping",
    "probe_reindexed_default_mapping", "probe_collapsed_common_first", "probe_collapsed_common_middle",
    "probe_collapsed_common_last", "probe_collapsed_common_absent", "probe_collapsed_negative_precedence",
    "probe_collapsed_omits_present_value", "probe_shift_common_changed_common", "probe_shift_to_absent",
    "probe_clean_reload", "probe_torn_reload_rejected", "probe_sliced_3d", "probe_slices1d_3d",
    "probe_column_stack_mixed_commons", "probe_column_stack_mixed_ndim", "from_array_rowscan_candidate",
)

SCHED_COMPONENTS = {
    "real": ["ccube/xcube.calculate", "fill_one_cube closures", "all ffunc_*/xfunc_* aggregates", "iindex.slices1d",
             "set_operations kernels", "NumPy", "real OS threads (one runnable at a time)"],
    "stub": ["multiprocessing.pool.ThreadPool / xcube.pool_class -> sim.sched.SimPool (same chunking, FIFO hand-out, "
             "per-chunk abort, all-chunks-then-first-failure semantics)",
             "time module as seen from catii.xcubes / catii.ffuncs -> SimClock (scheduler ticks)"],
    "not_modelled": ["interleavings inside one bytecode (GIL-releasing NumPy/Cython loops are atomic)",
                     "ThreadPool's internal handler threads and queues"],
}


class PooledAdapter(Adapter):
    prop = "C16"
    engine = "sched"
    level = "exploration"
    components = SCHED_COMPONENTS
    RUNS = {"quick": 1100, "thorough": 30000}
    SELFTEST = {"quick": 6, "thorough": 16}
    required_probes = ("pooled_runs_engaged", "strategy_uniform",
                       "strategy_pct", "strategy_targeted", "strategy_rtc", "strategy_burst", "strategy_lockstep", "switches_with_2+_tasks_in_flight",
                       "probe_poolsize_1", "cube_ccube", "cube_xcube")
    assumptions = [
        "SimPool is observably equivalent to multiprocessing.pool.ThreadPool.map (checked by the stub-fidelity self-test)",
        "a bytecode instruction is atomic: races confined to one GIL-releasing C loop are not explored",
        "bit equality with the serial run is the oracle: each task performs exactly the serial computation on its own view",
    ]

    def prepare(self):
        from . import poolrun

        poolrun.prepare()

    @property
    def run(self):
        from .props import pooled

        return pooled.run

    def replay(self, case):
        from .props import pooled

        pooled.replay(case)

    def minimise(self, case, signature):
        from .props import pooled

        return pooled.minimise(case, signature)

    def size(self, case):
        return len(case.get("decisions", ())) if case else 0

    def extra_selftests(self, tier):
        from . import selftest

        return {"stub_fidelity": selftest.stub_fidelity()}

    def coverage(self, stats, tier, n_runs):
        from .props import pooled

        c = stats.counters
        return {
            "evaluations": int(c.get("evaluations", 0)),
            "distinct_nontrivial": len(stats.distinct.get("nontrivial_workloads", ())),
            "rule": pooled.RULE,
            "samples": stats.samples[:3],
            "exhaustive": False,
            "pooled_evaluations": c.get("pooled_evaluations", 0),
            "distinct_schedules": len(stats.distinct.get("schedules", ())),
            "distinct_switch_location_pairs": len(stats.distinct.get("switch_location_pairs", ())),
            "simulated_steps": c.get("sim_steps", 0),
            "simulated_time_s": round(c.get("sim_steps", 0) * 1e-6, 3),
            "context_switches": c.get("context_switches", 0),
            "discarded_unsupported": c.get("discarded_unsupported", 0),
        }


class InterruptAdapter(PooledAdapter):
    prop = "C20"
    level = "fault_enumeration"
    RUNS = {"quick": 1000, "thorough": 20000}
    SELFTEST = {"quick": 4, "thorough": 12}
    required_probes = ("serial_runs", "pooled_runs", "pooled_runs_engaged", "fault_interrupt_serial_Exception",
                       "fault_interrupt_serial_BaseException", "fault_interrupt_pooled",
                       "probe_interrupt_first_subcube", "probe_interrupt_middle_subcube",
                       "probe_interrupt_last_subcube", "probe_interrupt_two_chunks_at_once",
                       "probe_interrupt_first_task_of_chunk", "recovery_calls_serial", "recovery_calls_pooled",
                       "cube_ccube", "cube_xcube")
    assumptions = PooledAdapter.assumptions + [
        "pooled interrupts are Exception subclasses only: the real ThreadPool worker loop catches Exception only, a "
        "BaseException there kills the worker and hangs map (standard-library behaviour, mirrored by the stub)",
    ]

    @property
    def run(self):
        from .props import interrupt

        return interrupt.run

    def replay(self, case):
        from .props import interrupt

        interrupt.replay(case)

    def minimise(self, case, signature):
        from .props import interrupt

        return interrupt.minimise(case, signature)

    def size(self, case):
        if not case:
            return 0
        p = case["plan"]
        return len(p.get("decisions") or ()) + len(p.get("rec_decisions") or ()) + len(case["workload"]["aggs"])

    def extra_selftests(self, tier):
        return None

    def coverage(self, stats, tier, n_runs):
        from .props import interrupt

        c = stats.counters
        return {
            "evaluations": int(c.get("evaluations", 0)),
            "distinct_nontrivial": len(stats.distinct.get("nontrivial_workloads", ())),
            "rule": interrupt.RULE,
            "samples": stats.samples[:3],
            "exhaustive": False,
            "serial_interrupt_indexes_exhaustive_per_cube": True,
            "fault_plans": c.get("fault_plans", 0),
            "distinct_fault_plans": len(stats.distinct.get("fault_plans", ())),
            "faults_injected": {
                "serial_Exception": c.get("fault_interrupt_serial_Exception", 0),
                "serial_BaseException": c.get("fault_interrupt_serial_BaseException", 0),
                "pooled_plans_with_raises": c.get("fault_interrupt_pooled", 0),
                "raises_planned_serial": c.get("raises_planned_serial", 0),
                "raises_fired_serial": c.get("raises_fired_serial", 0),
                "raises_planned_pooled": c.get("raises_planned_pooled", 0),
                "raises_fired_pooled": c.get("raises_fired_pooled", 0),
            },
            "recovery_calls": {"serial": c.get("recovery_calls_serial", 0), "pooled": c.get("recovery_calls_pooled", 0)},
            "distinct_schedules": len(stats.distinct.get("schedules", ())),
            "simulated_steps": c.get("sim_steps", 0),
            "simulated_time_s": round(c.get("sim_steps", 0) * 1e-6, 3),
            "context_switches": c.get("context_switches", 0),
            "discarded_unsupported": c.get("discarded_unsupported", 0),
        }


class PurityAdapter(PooledAdapter):
    prop = "C17"
    level = "exploration"
    RUNS = {"quick": 30000, "thorough": 600000}
    SELFTEST = {"quick": 6, "thorough": 16}
    required_probes = ("op_calculate", "op_shortcut", "op_newcube", "op_index", "probe_correct_call_after_interrupt",
                       "probe_several_aggregates_in_one_pass", "fault_interrupt_during_session",
                       "probe_aggregate_reused_on_cube_with_other_row_count",
                       "probe_same_aggregate_object_twice_in_one_pass",
                       "probe_aggregate_used_on_dimensionless_cube", "cube_ccube",
                       "cube_xcube")
    assumptions = [
        "an aggregate evaluated alone, serially, on fresh copies with a fresh object is the reference for that aggregate",
        "SimPool is observably equivalent to multiprocessing.pool.ThreadPool.map",
        "diagnostics (tracing dicts, intersection_data_points, warnings filters) are not part of the property",
    ]

    @property
    def run(self):
        from .props import purity

        return purity.run

    def replay(self, case):
        from .props import purity

        purity.replay(case)

    def minimise(self, case, signature):
        from .props import purity

        return purity.minimise(case, signature)

    def size(self, case):
        return len(case["ops"]) if case else 0

    def extra_selftests(self, tier):
        return None

    def coverage(self, stats, tier, n_runs):
        from .props import purity

        c = stats.counters
        return {
            "evaluations": int(c.get("evaluations", 0)),
            "distinct_nontrivial": len(stats.distinct.get("nontrivial_sessions", ())),
            "rule": purity.RULE,
            "samples": stats.samples[:3],
            "exhaustive": False,
            "calls_executed": c.get("steps", 0),
            "faults_injected": {"interrupts_during_sessions": c.get("fault_interrupt_during_session", 0)},
            "distinct_schedules": len(stats.distinct.get("schedules", ())),
            "simulated_steps": c.get("sim_steps", 0),
            "context_switches": c.get("context_switches", 0),
            "discarded_unsupported": c.get("discarded_unsupported", 0),
        }


REGISTRY = {
    "C16": PooledAdapter(),
    "C17": PurityAdapter(),
    "C20": InterruptAdapter(),
    "C06": HistAdapter("C06", HIST_PROBES),
    "C07": HistAdapter("C07", HIST_PROBES),
    "C15": HistAdapter("C15", HIST_PROBES + ("c15_library_chosen_common_checked", "c15_equality_pairs")),
    "C10": StorageAdapter("C10", "exploration", {"quick": 200000, "thorough": 6000000},
                          probes=("index_derived_cases", "empty_entry_sets", "cases_with_empty_rowid_array",
                                  "wmode_raw", "wmode_bufw", "wmode_bufrw", "wmode_append", "wmode_bufappend", "c_level_blocks",
                                  "probe_earlier_load_rechecked_after_next_load")),
    "C11": StorageAdapter("C11", "exploration", {"quick": 90000, "thorough": 2500000},
                          probes=("scale_total_ge_2^30", "scale_total_ge_2^32", "ref_to_lib_iw8_rw8",
                                  "ref_to_lib_iw1_rw1", "lib_to_ref_files")),
    "C12": StorageAdapter("C12", "fault_enumeration", {"quick": 12000, "thorough": 300000},
                          probes=("fault_crash_at_byte", "fault_disk_full", "cut_region_magic",
                                  "cut_region_version", "cut_region_size_word", "cut_region_header",
                                  "cut_region_coordinates", "cut_region_lengths", "cut_region_rowids",
                                  "cut_region_last_byte", "disk_full_save_raised", "fault_io_error_during_save",
                                  "fault_torn_in_place_after_load", "big_files")),
}
