"""Seeded instruction-granular thread scheduler behind a ThreadPool stub (engine ``sched``).

Worker tasks run on *real* threads, but exactly one thread holds the baton at any time.  The
holder reaches a pre-emption point before every bytecode instruction it executes in a code
object that belongs to the catii package (CPython 3.12 ``sys.monitoring`` INSTRUCTION events;
other code is DISABLEd per location and is therefore atomic), and there a *strategy* driven by
the run's PRNG -- or, on replay, the recorded decision list -- picks who runs next.  The OS
never chooses.  One seed is one interleaving.

``SimPool`` reproduces ``multiprocessing.pool.ThreadPool`` where it is observable: the iterable
is materialised by the caller; chunk size ``ceil(len / (4 * processes))``; chunks are taken
FIFO by whichever worker runs; an ``Exception`` aborts the rest of its chunk only; ``map``
returns only after all chunks are finished and raises the first failure in completion order.
"""
import hashlib
import sys
import threading

TOOL_ID = 3
_mon = sys.monitoring
_E = _mon.events

ACTIVE = None  # the Session that owns scheduling right now, if any
_PACKAGE_DIRS = []
_FILE_OK = {}
_installed = False
_LINE_CACHE = {}

SEM_TIMEOUT = 120.0
STRATEGIES = ("uniform", "pct", "rtc", "targeted", "burst", "lockstep")


class SimAbort(BaseException):
    """Raised inside a simulated thread to unwind it (step cap); never caught by catii."""


class PoolHang(Exception):
    """The real ThreadPool would never return from map() here (a worker was killed)."""


class NoProgress(Exception):
    """Step cap exceeded or no runnable thread while work remains."""


class HarnessFault(Exception):
    pass


def _line_of(code, offset):
    m = _LINE_CACHE.get(code)
    if m is None:
        m = {}
        for start, end, line in code.co_lines():
            for o in range(start, end, 2):
                m[o] = line
        _LINE_CACHE[code] = m
    return "%s:%s" % (code.co_name, m.get(offset))


def _on_instruction(code, offset):
    sess = ACTIVE
    if sess is None:
        return None
    fn = code.co_filename
    ok = _FILE_OK.get(fn)
    if ok is None:
        ok = _FILE_OK[fn] = any(fn.startswith(d) for d in _PACKAGE_DIRS)
    if not ok:
        return _mon.DISABLE
    t = sess.by_ident.get(threading.get_ident())
    if t is None:
        return None
    sess.preempt(t, code, offset)
    return None


def install(package_dir):
    """Patch the pool classes (before catii is imported) and claim the monitoring tool id."""
    global _installed
    if package_dir not in _PACKAGE_DIRS:
        _PACKAGE_DIRS.append(package_dir)
        _FILE_OK.clear()
    if _installed:
        return
    import multiprocessing.dummy
    import multiprocessing.pool

    multiprocessing.pool.ThreadPool = SimPool
    multiprocessing.dummy.Pool = SimPool
    try:
        import concurrent.futures
        import concurrent.futures.thread

        concurrent.futures.ThreadPoolExecutor = SimExecutor
        concurrent.futures.thread.ThreadPoolExecutor = SimExecutor
    except Exception:  # pragma: no cover
        pass
    _mon.use_tool_id(TOOL_ID, "catii-sim")
    _mon.register_callback(TOOL_ID, _E.INSTRUCTION, _on_instruction)
    _installed = True


class SimClock:
    """Stands in for the ``time`` module as seen from catii.xcubes / catii.ffuncs."""

    def __init__(self):
        self.extra = 0

    def _now(self):
        s = ACTIVE
        return ((s.steps if s is not None else 0) + self.extra) * 1e-6

    def time(self):
        return 1.7e9 + self._now()

    def perf_counter(self):
        return self._now()

    monotonic = perf_counter

    def sleep(self, secs):  # a sleeping thread yields the processor; simulated time jumps
        self.extra += int(secs * 1e6)
        s = ACTIVE
        if s is not None:
            s.stats_sleep += 1

    def __getattr__(self, name):
        import time as _t

        return getattr(_t, name)


class SimThread:
    __slots__ = ("id", "sem", "thread", "local", "done", "prio", "last", "task_active", "killed", "quota", "starts")

    def __init__(self, tid):
        self.id = tid
        self.sem = threading.Semaphore(0)
        self.thread = None
        self.local = 0
        self.done = False
        self.prio = 0.0
        self.last = None
        self.task_active = False
        self.killed = None
        self.quota = 0
        self.starts = 0


class Session:
    """One pooled evaluation under one schedule.

    spec: {"strategy": ..., "p": float, "d": int, "points": [global steps], "est": int}
    rng:  random.Random used for decisions (None when a script is given)
    script: recorded decisions [[who, at, next], ...] to follow instead of the PRNG
    """

    def __init__(self, spec, rng=None, script=None, step_cap=5_000_000):
        self.spec = spec
        self.rng = rng
        self.script = None
        if script is not None:
            self.script = {(w, a): n for w, a, n in script}
        self.step_cap = step_cap
        self.steps = 0
        self.switches = 0
        self.decisions = []
        self.threads = []
        self.by_ident = {}
        self.maps = 0
        self.main_sem = threading.Semaphore(0)
        self.current = None
        self.max_in_flight = 0
        self.switch_pairs = set()
        self.switch_in_flight = 0
        self.pool_engaged = 0
        self.tasks_run = 0
        self.aborted = None
        self.stats_sleep = 0
        self.current_task = threading.local()
        self.map_layouts = []
        self.chunks_cut_short_by_stopiteration = 0
        self.lazy = []
        self.after_return = False
        self.late_tasks = 0
        strat = spec.get("strategy", "rtc")
        self.strategy = strat
        self.p = float(spec.get("p", 0.0))
        self.points = set(spec.get("points", ()))
        self.burst_lo, self.burst_hi = spec.get("burst", (0, 0))
        self.q = int(spec.get("q", 1))
        self.max_offset = int(spec.get("max_offset", 0))
        self.ladder = int(spec.get("ladder", 0))
        self._next_prio = 0.0

    # ------------------------------------------------------------------ context manager
    def __enter__(self):
        global ACTIVE
        if ACTIVE is not None:
            raise HarnessFault("nested simulation sessions")
        ACTIVE = self
        return self

    def __exit__(self, *exc):
        global ACTIVE
        ACTIVE = None
        _mon.set_events(TOOL_ID, 0)
        return False

    # ------------------------------------------------------------------ decisions
    def _runnable(self):
        return [t for t in self.threads if not t.done]

    def _record(self, who, at, nxt):
        self.decisions.append([who, at, nxt.id])

    def _pick_any(self, who, at, candidates):
        """Choose among candidates when the current thread cannot continue."""
        if self.script is not None:
            want = self.script.get((who, at))
            for t in candidates:
                if t.id == want:
                    self._record(who, at, t)
                    return t
            t = min(candidates, key=lambda t: t.id)
            return t
        if self.strategy == "pct":
            t = max(candidates, key=lambda t: t.prio)
        else:
            t = candidates[self.rng.randrange(len(candidates))] if len(candidates) > 1 else candidates[0]
        self._record(who, at, t)
        return t

    def preempt(self, t, code, offset):
        self.steps += 1
        t.local += 1
        t.last = (code, offset)
        if self.steps > self.step_cap:
            self.aborted = "step cap %d exceeded" % self.step_cap
            raise SimAbort(self.aborted)
        nxt = None
        if self.script is not None:
            want = self.script.get((t.id, t.local))
            if want is not None and want != t.id:
                for u in self.threads:
                    if u.id == want and not u.done:
                        nxt = u
                        break
        else:
            strat = self.strategy
            if strat == "uniform":
                if self.rng.random() < self.p:
                    others = [u for u in self.threads if not u.done and u is not t]
                    if others:
                        nxt = others[self.rng.randrange(len(others))]
            elif strat == "lockstep":
                # round-robin, q instructions each, after a small per-thread head start: explores
                # "one task is a few instructions behind another" systematically (all tasks run the same code)
                t.quota -= 1
                if t.quota <= 0:
                    t.quota = self.q
                    alive = [u for u in self.threads if not u.done]
                    if len(alive) > 1:
                        i = alive.index(t)
                        nxt = alive[(i + 1) % len(alive)]
            elif strat == "burst":
                # every instruction is a context switch inside one window of the run, run-to-completion outside
                if self.burst_lo <= self.steps < self.burst_hi:
                    others = [u for u in self.threads if not u.done and u is not t]
                    if others:
                        nxt = others[self.rng.randrange(len(others))]
            elif strat == "targeted":
                if self.steps in self.points:
                    others = [u for u in self.threads if not u.done and u is not t]
                    if others:
                        nxt = others[self.rng.randrange(len(others))]
            elif strat == "pct":
                if self.steps in self.points:
                    self._next_prio -= 1.0
                    t.prio = self._next_prio
                    best = max((u for u in self.threads if not u.done), key=lambda u: u.prio)
                    if best is not t:
                        nxt = best
        if nxt is not None:
            self._record(t.id, t.local, nxt)
            self._switch(t, nxt)

    def task_start(self, t):
        """A worker has taken a task and is about to run it: it may be delayed here while others overtake it
        (the only way tasks made of one atomic call - a system call, a NumPy call - can finish out of order)."""
        t.starts = getattr(t, "starts", 0) + 1
        key = "start%d" % t.starts
        nxt = None
        others = [u for u in self.threads if not u.done and u is not t]
        if not others:
            return
        if self.script is not None:
            want = self.script.get((t.id, key))
            for u in others:
                if u.id == want:
                    nxt = u
        elif self.strategy != "pct" and self.rng.random() < 0.35:
            nxt = others[self.rng.randrange(len(others))]
        if nxt is not None:
            self._record(t.id, key, nxt)
            self._switch(t, nxt)

    def _switch(self, t, nxt):
        self.switches += 1
        in_flight = sum(1 for u in self.threads if u.task_active and not u.done)
        if in_flight > self.max_in_flight:
            self.max_in_flight = in_flight
        if in_flight >= 2:
            self.switch_in_flight += 1
        if t.last is not None and nxt.last is not None and len(self.switch_pairs) < 4096:
            self.switch_pairs.add((_line_of(*t.last), _line_of(*nxt.last)))
        self.current = nxt
        nxt.sem.release()
        if not t.sem.acquire(timeout=SEM_TIMEOUT):
            raise HarnessFault("sim thread %d never got the baton back" % t.id)

    # ------------------------------------------------------------------ the pool protocol
    def run_map(self, func, chunks, processes, star=False):
        """Run chunks on `processes` simulated workers; return per-chunk results in order."""
        self.pool_engaged += 1
        map_no = self.maps
        self.maps += 1
        # number the items in submission order; remember the chunk layout of this map call
        numbered, n = [], 0
        for chunk in chunks:
            numbered.append([(n + j, item) for j, item in enumerate(chunk)])
            n += len(chunk)
        self.map_layouts.append([[k for k, _ in c] for c in numbered])
        queue = list(enumerate(numbered))
        queue.reverse()  # pop() from the end = FIFO
        results = [None] * len(chunks)
        completion = []
        base = len(self.threads)
        workers = []

        def body(t):
            if not t.sem.acquire(timeout=SEM_TIMEOUT):
                return
            try:
                while queue and self.aborted is None:
                    i, chunk = queue.pop()
                    t.task_active = True
                    def call(numbered_item):
                        number, item = numbered_item
                        self.tasks_run += 1
                        self.task_start(t)
                        self.current_task.value = (map_no, number)
                        return func(*item) if star else func(item)

                    try:
                        # exactly what the real worker runs for a chunk (multiprocessing.pool.mapstar):
                        # list(map(func, chunk)) -- so a StopIteration escaping a task silently ends the chunk
                        out = list(map(call, chunk))
                        if len(out) < len(chunk):
                            self.chunks_cut_short_by_stopiteration += 1
                        results[i] = (True, out)
                    except Exception as e:  # what the real worker loop catches
                        results[i] = (False, e)
                    except SimAbort:
                        results[i] = (False, NoProgress(self.aborted))
                    except BaseException as e:  # the real worker thread would die here
                        t.killed = e
                        results[i] = (False, PoolHang("worker killed by %r; ThreadPool.map would hang" % (e,)))
                    finally:
                        self.current_task.value = None
                        t.task_active = False
                    completion.append(i)
            finally:
                t.done = True
                rest = [u for u in workers if not u.done]
                if rest:
                    nxt = self._pick_any(t.id, "end", rest)
                    self.current = nxt
                    nxt.sem.release()
                else:
                    self.main_sem.release()

        for k in range(processes):
            t = SimThread(base + k)
            if self.strategy == "pct":
                t.prio = self.rng.random() if self.rng is not None else 0.0
            if self.strategy == "lockstep":
                if self.ladder:
                    t.quota = self.q + (processes - 1 - k) * self.ladder  # worker k runs d instructions ahead of k+1
                elif self.rng is not None:
                    t.quota = self.q + self.rng.randrange(0, self.max_offset + 1)
            th = threading.Thread(target=body, args=(t,), daemon=True, name="sim-worker-%d" % t.id)
            t.thread = th
            workers.append(t)
        self.threads.extend(workers)
        for t in workers:
            t.thread.start()
            self.by_ident[t.thread.ident] = t
        _mon.set_events(TOOL_ID, _E.INSTRUCTION)
        try:
            first = self._pick_any("M", map_no, workers)
            self.current = first
            first.sem.release()
            if not self.main_sem.acquire(timeout=SEM_TIMEOUT * 4):
                raise HarnessFault("simulated workers never finished (harness deadlock)")
        finally:
            _mon.set_events(TOOL_ID, 0)
        for t in workers:
            t.thread.join(timeout=SEM_TIMEOUT)
            if t.thread.is_alive():
                raise HarnessFault("sim worker %d still alive after map" % t.id)
            self.by_ident.pop(t.thread.ident, None)
        return results, completion

    def run_lazy(self, func, chunks, processes, star=False, ordered=True):
        """imap / imap_unordered: a generator over the results.  Workers make progress only while the
        consumer is waiting for the next result; if the consumer stops early (an exception leaves the
        loop), the unfinished tasks are still there when the evaluation returns -- see finish()."""
        self.pool_engaged += 1
        map_no = self.maps
        self.maps += 1
        numbered, n = [], 0
        for chunk in chunks:
            numbered.append([(n + j, item) for j, item in enumerate(chunk)])
            n += len(chunk)
        self.map_layouts.append([[k for k, _ in c] for c in numbered])
        queue = list(enumerate(numbered))
        queue.reverse()
        results = {}
        completion = []
        base = len(self.threads)
        workers = []

        def body(t):
            if not t.sem.acquire(timeout=SEM_TIMEOUT):
                return
            try:
                while queue and self.aborted is None:
                    i, chunk = queue.pop()
                    t.task_active = True

                    def call(numbered_item):
                        number, item = numbered_item
                        self.tasks_run += 1
                        if self.after_return:
                            self.late_tasks += 1
                        self.task_start(t)
                        self.current_task.value = (map_no, number)
                        return func(*item) if star else func(item)

                    try:
                        results[i] = (True, list(map(call, chunk)))
                    except Exception as e:
                        results[i] = (False, e)
                    except SimAbort:
                        results[i] = (False, NoProgress(self.aborted))
                    except BaseException as e:
                        t.killed = e
                        results[i] = (False, PoolHang("worker killed by %r" % (e,)))
                    finally:
                        self.current_task.value = None
                        t.task_active = False
                    completion.append(i)
                    if queue:
                        # a result is ready: the consumer gets the baton; this worker parks until resumed
                        self.current = None
                        self.main_sem.release()
                        if not t.sem.acquire(timeout=SEM_TIMEOUT * 4):
                            return
            finally:
                t.done = True
                self.main_sem.release()

        for k in range(processes):
            t = SimThread(base + k)
            th = threading.Thread(target=body, args=(t,), daemon=True, name="sim-worker-%d" % t.id)
            t.thread = th
            workers.append(t)
        self.threads.extend(workers)
        for t in workers:
            t.thread.start()
            self.by_ident[t.thread.ident] = t
        state = {"resumes": 0}

        def advance():
            """Let the workers run until one more chunk is complete (or nothing can run)."""
            runnable = [w for w in workers if not w.done]
            if not runnable:
                return False
            _mon.set_events(TOOL_ID, _E.INSTRUCTION)
            try:
                nxt = self._pick_any("L%d" % map_no, state["resumes"], runnable)
                state["resumes"] += 1
                self.current = nxt
                nxt.sem.release()
                if not self.main_sem.acquire(timeout=SEM_TIMEOUT * 4):
                    raise HarnessFault("simulated workers never reported back (lazy map)")
            finally:
                _mon.set_events(TOOL_ID, 0)
            return True

        self.lazy.append((workers, advance))

        def consumer():
            delivered = 0
            taken = 0
            while delivered < len(numbered):
                want = delivered if ordered else (completion[taken] if taken < len(completion) else None)
                if want is not None and want in results:
                    ok, val = results[want]
                    delivered += 1
                    taken += 1
                    if not ok:
                        raise val
                    for item in val:
                        yield item
                    continue
                if not advance():
                    raise PoolHang("imap: no worker left but results are missing")

        return consumer()

    def finish(self):
        """Called when the evaluation has returned: run whatever lazily scheduled work is left (so that
        its side effects become visible) and report how many tasks ran only now."""
        self.after_return = True
        for workers, advance in self.lazy:
            guard = 0
            while any(not w.done for w in workers):
                guard += 1
                if guard > 100000 or not advance():
                    break
        for t in self.threads:
            if t.thread is not None:
                t.thread.join(timeout=SEM_TIMEOUT)
        return self.late_tasks

    # ------------------------------------------------------------------ reporting
    def schedule_digest(self):
        return hashlib.blake2b(repr(self.decisions).encode(), digest_size=8).hexdigest()

    def live_sim_threads(self):
        return [t.id for t in self.threads if t.thread is not None and t.thread.is_alive()]


def _chunks(items, processes, chunksize):
    """Pool._map_async's batching.  An explicit chunksize of 0 schedules NO task at all and map()
    returns [None] * len(items) (MapResult with chunksize <= 0 is born finished); a negative one
    makes the real task handler die, i.e. map() never returns."""
    if chunksize is None:
        chunksize, extra = divmod(len(items), processes * 4)
        if extra:
            chunksize += 1
    if len(items) == 0:
        return []
    if chunksize == 0:
        return None
    if chunksize < 0:
        raise PoolHang("ThreadPool.map with chunksize=%r never returns" % (chunksize,))
    return [items[i : i + chunksize] for i in range(0, len(items), chunksize)]


class _Result:
    """AsyncResult / Future stand-in.  The work is DEFERRED until somebody waits for it: the
    legal schedule in which the workers are slower than the submitting thread.  Work nobody ever
    waits for is still pending when the evaluation returns and is reported as such."""

    def __init__(self, thunk, callback=None, error_callback=None):
        self._thunk = thunk
        self._cb, self._ecb = callback, error_callback
        self._done = False
        self._v = self._e = None
        PENDING.append(self)

    def _force(self):
        if not self._done:
            self._done = True
            if self in PENDING:
                PENDING.remove(self)
            try:
                self._v = self._thunk()
                if self._cb:
                    self._cb(self._v)
            except Exception as e:
                self._e = e
                if self._ecb:
                    self._ecb(e)

    def get(self, timeout=None):
        self._force()
        if self._e is not None:
            raise self._e
        return self._v

    result = get

    def wait(self, timeout=None):
        self._force()

    def ready(self):
        return self._done

    done = ready

    def successful(self):
        self._force()
        return self._e is None

    def exception(self, timeout=None):
        self._force()
        return self._e

    def add_done_callback(self, fn):
        self._force()
        fn(self)


PENDING = []


def drain_pending():
    """Forget deferred work (called between evaluations); returns how much there was."""
    n = len(PENDING)
    del PENDING[:]
    return n


class SimPool:
    """Drop-in for multiprocessing.pool.ThreadPool under the simulator."""

    unsimulated_uses = 0

    def __init__(self, processes=None, initializer=None, initargs=(), *a, **kw):
        import os

        if processes is None:
            processes = os.cpu_count() or 1
        if processes < 1:
            raise ValueError("Number of processes must be at least 1")
        self._processes = processes
        self._closed = False
        if initializer is not None:
            initializer(*initargs)

    def _run(self, func, items, chunksize, star=False, unordered=False, force=False):
        if self._closed and not force:
            raise ValueError("Pool not running")
        items = list(items)
        if not items:
            return []
        sess = ACTIVE
        chunks = _chunks(items, self._processes, chunksize)
        if chunks is None:
            return [None] * len(items)
        if sess is None:
            # no simulation session: same chunk semantics, executed serially in the caller
            SimPool.unsimulated_uses += 1
            results, completion = [], []
            for i, chunk in enumerate(chunks):
                try:
                    results.append((True, list(map((lambda x: func(*x)) if star else func, chunk))))
                except Exception as e:
                    results.append((False, e))
                completion.append(i)
        else:
            results, completion = sess.run_map(func, chunks, self._processes, star)
        for i in completion:
            ok, val = results[i]
            if not ok:
                raise val
        if unordered:
            out = []
            for i in completion:
                out.extend(results[i][1])
            return out
        # MapResult._set: self._value[i*chunksize:(i+1)*chunksize] = result  (a short chunk shifts nothing:
        # the value list was pre-sized, a short slice assignment shrinks it -- reproduce it literally)
        size = len(chunks[0]) if chunks else 1
        value = [None] * len(items)
        for i in completion:
            value[i * size:(i + 1) * size] = results[i][1]
        return value

    def map(self, func, iterable, chunksize=None):
        return self._run(func, iterable, chunksize)

    def starmap(self, func, iterable, chunksize=None):
        return self._run(func, iterable, chunksize, star=True)

    def _lazy(self, func, iterable, chunksize, ordered):
        items = list(iterable)
        sess = ACTIVE
        if sess is None or not items or self._closed:
            return iter(self._run(func, items, chunksize, unordered=not ordered))
        chunks = _chunks(items, self._processes, chunksize)
        if chunks is None:
            return iter([None] * len(items))
        return sess.run_lazy(func, chunks, self._processes, ordered=ordered)

    def imap(self, func, iterable, chunksize=1):
        return self._lazy(func, iterable, chunksize, True)

    def imap_unordered(self, func, iterable, chunksize=1):
        # results in COMPLETION order, as the real pool yields them; an exception surfaces as soon as the
        # failed result is consumed, while other tasks may not have run yet
        return self._lazy(func, iterable, chunksize, False)

    def map_async(self, func, iterable, chunksize=None, callback=None, error_callback=None):
        items = list(iterable)
        return _Result(lambda: self._run(func, items, chunksize), callback, error_callback)

    def starmap_async(self, func, iterable, chunksize=None, callback=None, error_callback=None):
        items = list(iterable)
        return _Result(lambda: self._run(func, items, chunksize, star=True), callback, error_callback)

    def apply(self, func, args=(), kwds={}):
        return self._run(lambda _: func(*args, **kwds), [None], 1)[0]

    def apply_async(self, func, args=(), kwds={}, callback=None, error_callback=None):
        return _Result(lambda: self._run(lambda _: func(*args, **kwds), [None], 1, force=True)[0], callback, error_callback)

    def close(self):
        self._closed = True  # like the real close(): does NOT wait for outstanding work

    def terminate(self):
        self._closed = True

    def join(self):
        for r in list(PENDING):  # join() waits for outstanding work
            r._force()

    def __enter__(self):
        return self

    def __exit__(self, *exc):
        self.terminate()


class SimExecutor:
    """Stand-in for concurrent.futures.ThreadPoolExecutor (tasks run when map()/result() need them).

    map() is simulated like SimPool.map with chunksize 1; submit() runs the call at once in
    the caller (a refactor to fire-and-forget futures is thereby reduced to serial evaluation,
    which the oracles then compare as usual).
    """

    def __init__(self, max_workers=None, *a, **kw):
        import os

        self._n = max_workers or min(32, (os.cpu_count() or 1) + 4)
        self._pool = SimPool(self._n)

    def map(self, fn, *iterables, timeout=None, chunksize=1):
        items = list(zip(*iterables))
        return iter(self._pool._run(fn, items, 1, star=True))

    def submit(self, fn, *args, **kwargs):
        return self._pool.apply_async(fn, args, kwargs)

    def shutdown(self, wait=True, cancel_futures=False):
        if wait and not cancel_futures:
            self._pool.join()
        self._pool.close()

    def __enter__(self):
        return self

    def __exit__(self, *exc):
        self.shutdown()
        return False


def make_spec(rng, est_steps, allow=STRATEGIES):
    """Draw one schedule specification (swarm style)."""
    strat = rng.choice(allow)
    spec = {"strategy": strat}
    est = max(10, int(est_steps))
    if strat == "uniform":
        spec["p"] = rng.choice((0.002, 0.01, 0.05, 0.2, 1.0))
    elif strat == "pct":
        d = rng.choice((1, 2, 3))
        spec["points"] = sorted(rng.randrange(1, est) for _ in range(d))
    elif strat == "lockstep":
        spec["q"] = rng.choice((1, 1, 2, 3, 5, 8, 13))
        spec["max_offset"] = rng.choice((0, 3, 8, 20, 60))
    elif strat == "burst":
        length = rng.choice((30, 100, 300, 1000))
        start = rng.choice((0, 0, rng.randrange(0, max(1, est // 4)), rng.randrange(0, est)))
        spec["burst"] = [start, start + length]
    elif strat == "targeted":
        k = rng.choice((1, 2, 3, 4))
        pts = []
        for _ in range(k):
            a = rng.randrange(1, est)
            pts.append(a)
            pts.append(a + rng.choice((1, 2, 3, 5, 8, 13, 30, 100)))
        spec["points"] = sorted(set(pts))
    return spec
