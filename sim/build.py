"""Rebuild catii from /repo's *current working tree* into a private scratch directory.

Every check calls ``ensure_catii()`` first.  The pure-Python modules are copied verbatim from
``/repo/src/catii``; ``set_operations.pyx`` is cythonized and compiled with gcc.  The compiled
kernel is cached by the SHA-256 of the .pyx text and tool versions (a content-addressed
cache: identical source => identical object), so editing the .pyx always triggers a rebuild.
Nothing is written into /repo; the scratch tree lives under /dev/shm (fallback: $TMPDIR)
and is removed at interpreter exit by the process that created it.
"""
import atexit
import hashlib
import os
import shutil
import subprocess
import sys
import sysconfig
import tempfile

REPO = os.environ.get("VERIF_REPO", "/repo")
SRC = os.path.join(REPO, "src", "catii")
GUARD = "CRUNCH_IO_CATII_VERIF"

_built = None


def _scratch_root():
    for d in ("/dev/shm", os.environ.get("TMPDIR") or "", tempfile.gettempdir()):
        if d and os.path.isdir(d) and os.access(d, os.W_OK):
            return d
    raise RuntimeError("no writable scratch directory")


def _compile_kernel(pyx_path, outdir):
    import numpy

    c_path = os.path.join(outdir, "set_operations.c")
    subprocess.run(
        [sys.executable, "-m", "cython", "-3", "--fast-fail", pyx_path, "-o", c_path],
        check=True, stdout=subprocess.PIPE, stderr=subprocess.STDOUT,
    )
    ext = sysconfig.get_config_var("EXT_SUFFIX")
    so_path = os.path.join(outdir, "set_operations" + ext)
    subprocess.run(
        [
            "gcc", "-shared", "-fPIC", "-O1", "-w",
            "-DNPY_NO_DEPRECATED_API=NPY_1_7_API_VERSION",
            "-I" + sysconfig.get_paths()["include"],
            "-I" + numpy.get_include(),
            c_path, "-o", so_path,
        ],
        check=True, stdout=subprocess.PIPE, stderr=subprocess.STDOUT,
    )
    os.unlink(c_path)
    return so_path


def build_tree(dest):
    """Copy the python sources of the working tree to dest/catii and build the kernel."""
    import Cython
    import numpy

    pkg = os.path.join(dest, "catii")
    os.makedirs(pkg)
    for name in sorted(os.listdir(SRC)):
        if name.endswith(".py") or name.endswith(".pyx"):
            shutil.copy(os.path.join(SRC, name), os.path.join(pkg, name))
    pyx = os.path.join(pkg, "set_operations.pyx")
    with open(pyx, "rb") as fh:
        key = hashlib.sha256(
            fh.read()
            + ("|%s|%s|%s" % (sys.version, numpy.__version__, Cython.__version__)).encode()
        ).hexdigest()[:24]
    ext = sysconfig.get_config_var("EXT_SUFFIX")
    cache_dir = os.path.join(_scratch_root(), "catii-verif-kcache-%d" % os.getuid())
    cached = os.path.join(cache_dir, key + ext)
    target = os.path.join(pkg, "set_operations" + ext)
    if os.environ.get("VERIF_NO_KCACHE") != "1" and os.path.exists(cached):
        shutil.copy(cached, target)
    else:
        so = _compile_kernel(pyx, pkg)
        try:
            os.makedirs(cache_dir, exist_ok=True)
            tmp = cached + ".%d.tmp" % os.getpid()
            shutil.copy(so, tmp)
            os.replace(tmp, cached)
        except OSError:
            pass
    return pkg


def ensure_catii():
    """Build once per process tree; put the scratch tree first on sys.path; return its path.

    Child worker processes (fork) inherit the environment variable VERIF_CATII_TREE and the
    already-imported modules, and never rebuild.
    """
    global _built
    if _built:
        return _built
    os.environ[GUARD] = "1"
    os.environ.setdefault("OPENBLAS_NUM_THREADS", "1")
    os.environ.setdefault("OMP_NUM_THREADS", "1")
    tree = os.environ.get("VERIF_CATII_TREE")
    if not (tree and os.path.isdir(os.path.join(tree, "catii"))):
        tree = tempfile.mkdtemp(prefix="catii-verif-%d-" % os.getpid(), dir=_scratch_root())
        owner = os.getpid()

        def _cleanup(path=tree, owner=owner):
            if os.getpid() == owner:
                shutil.rmtree(path, ignore_errors=True)

        atexit.register(_cleanup)
        build_tree(tree)
        os.environ["VERIF_CATII_TREE"] = tree
    if tree not in sys.path:
        sys.path.insert(0, tree)
    _built = tree
    return tree


def import_catii():
    """Import catii from the scratch tree and assert that is where it came from."""
    tree = ensure_catii()
    import catii

    here = os.path.realpath(os.path.dirname(catii.__file__))
    if not here.startswith(os.path.realpath(tree)):
        raise RuntimeError("catii imported from %s, not from the scratch build %s" % (here, tree))
    return catii


def source_digest():
    """SHA-256 over the working-tree sources that were built (goes into the evidence)."""
    h = hashlib.sha256()
    for name in sorted(os.listdir(SRC)):
        if name.endswith(".py") or name.endswith(".pyx"):
            h.update(name.encode())
            with open(os.path.join(SRC, name), "rb") as fh:
                h.update(fh.read())
    return h.hexdigest()[:16]
