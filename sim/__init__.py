"""Deterministic simulation with fault injection for Crunch-io/catii (see /verif/DESIGN.md)."""
